//go:build verif

package ssh

import (
	"net"
	"time"

	"golang.org/x/crypto/ssh"
)

// zzNativeSSH (native twin only): a real SSH client on a pipe presents the attempts of
// the model with a retrying password method; returns the server side of the pipe.
func zzNativeSSH(s *sshSimulatorService) net.Conn {
	keyBytes, err := generateKey()
	if err != nil {
		return nil
	}
	s.key = makePrivateKey(keyBytes)
	// a real loopback TCP pair (net.Pipe is unbuffered: both ends write their version
	// string first and would deadlock)
	ln, err := net.Listen("tcp", "127.0.0.1:0")
	if err != nil {
		return nil
	}
	defer ln.Close()
	cli, err := net.Dial("tcp", ln.Addr().String())
	if err != nil {
		return nil
	}
	srv, err := ln.Accept()
	if err != nil {
		return nil
	}
	zzSAccepted = -1
	i := 0
	done := make(chan struct{})
	zzNativeDone = done
	go func() {
		defer close(done)
		cfg := &ssh.ClientConfig{
			User:            zzSUser,
			HostKeyCallback: ssh.InsecureIgnoreHostKey(),
			Timeout:         5 * time.Second,
			Auth: []ssh.AuthMethod{ssh.RetryableAuthMethod(ssh.PasswordCallback(func() (string, error) {
				pw := zzSAttempts[i]
				i++
				return pw, nil
			}), len(zzSAttempts))},
		}
		c, _, _, err := ssh.NewClientConn(cli, "honeytrap", cfg)
		if err == nil {
			zzSAccepted = i - 1
			c.Close()
		}
		cli.Close()
	}()
	return srv
}

var zzNativeDone chan struct{}
