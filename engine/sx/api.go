package sx

import (
	"go/token"
	"go/types"
	"reflect"

	"gosx/smt"

	"golang.org/x/tools/go/ssa"
)

type ssaFunction = ssa.Function

var zzapi = map[string]intrinsic{}

func init() {
	nd := func(kind string, w int) intrinsic {
		return func(e *Engine, args []Value, fn *ssa.Function) Value {
			return e.newNondet(kind, w, e.posOfCaller())
		}
	}
	zzapi["zzU8"] = nd("u8", 8)
	zzapi["zzU16"] = nd("u16", 16)
	zzapi["zzU32"] = nd("u32", 32)
	zzapi["zzU64"] = nd("u64", 64)
	zzapi["zzI64"] = nd("u64", 64)
	zzapi["zzInt"] = nd("u64", 64)
	zzapi["zzI32"] = nd("u32", 32)
	zzapi["zzI16"] = nd("u16", 16)
	zzapi["zzBool"] = func(e *Engine, args []Value, fn *ssa.Function) Value {
		return e.newNondet("bool", 0, e.posOfCaller())
	}
	zzapi["zzBytes"] = func(e *Engine, args []Value, fn *ssa.Function) Value {
		n, ok := concInt(args[0].(*smt.Term))
		if !ok {
			e.unsupported("zzBytes with symbolic length (use zzLen)")
		}
		site := e.posOfCaller()
		bs := make([]*smt.Term, n)
		for i := range bs {
			bs[i] = e.newNondet("u8", 8, site)
		}
		return e.bytesToSlice(bs)
	}
	zzapi["zzString"] = func(e *Engine, args []Value, fn *ssa.Function) Value {
		n, ok := concInt(args[0].(*smt.Term))
		if !ok {
			e.unsupported("zzString with symbolic length (use zzLen)")
		}
		site := e.posOfCaller()
		bs := make([]*smt.Term, n)
		for i := range bs {
			bs[i] = e.newNondet("u8", 8, site)
		}
		if n == 0 {
			return Str{}
		}
		return Str{Sym: bs}
	}
	zzapi["zzLen"] = func(e *Engine, args []Value, fn *ssa.Function) Value {
		lo, ok1 := concInt(args[0].(*smt.Term))
		hi, ok2 := concInt(args[1].(*smt.Term))
		if !ok1 || !ok2 || hi < lo {
			e.unsupported("zzLen needs concrete lo <= hi")
		}
		v := lo
		if hi > lo {
			v = lo + e.chooseFree(hi-lo+1)
		}
		e.recordLen(v, e.posOfCaller())
		return e.intC(v)
	}
	zzapi["zzAssume"] = func(e *Engine, args []Value, fn *ssa.Function) Value {
		e.assume(args[0].(*smt.Term), e.posOfCaller())
		return nil
	}
	zzapi["zzAssert"] = func(e *Engine, args []Value, fn *ssa.Function) Value {
		e.assert(args[0].(*smt.Term), strArg(e, args[1]), e.posOfCaller())
		return nil
	}
	zzapi["zzAssertMsg"] = func(e *Engine, args []Value, fn *ssa.Function) Value {
		e.assert(args[0].(*smt.Term), strArg(e, args[1])+": "+normDigits(strArg(e, args[2])), e.posOfCaller())
		return nil
	}
	zzapi["zzAnd"] = func(e *Engine, args []Value, fn *ssa.Function) Value {
		return e.ctx.And(args[0].(*smt.Term), args[1].(*smt.Term))
	}
	zzapi["zzOr"] = func(e *Engine, args []Value, fn *ssa.Function) Value {
		return e.ctx.Or(args[0].(*smt.Term), args[1].(*smt.Term))
	}
	zzapi["zzImplies"] = func(e *Engine, args []Value, fn *ssa.Function) Value {
		return e.ctx.Or(e.ctx.Not(args[0].(*smt.Term)), args[1].(*smt.Term))
	}
	zzapi["zzIteInt"] = func(e *Engine, args []Value, fn *ssa.Function) Value {
		return e.ctx.Ite(args[0].(*smt.Term), args[1].(*smt.Term), args[2].(*smt.Term))
	}
	zzapi["zzCover"] = func(e *Engine, args []Value, fn *ssa.Function) Value {
		e.rep.AssertSites["cover:"+strArg(e, args[0])]++
		return nil
	}
	zzapi["zzSymbolic"] = func(e *Engine, args []Value, fn *ssa.Function) Value { return e.ctx.True }
	zzapi["zzParam"] = func(e *Engine, args []Value, fn *ssa.Function) Value {
		name := strArg(e, args[0])
		if v, ok := e.cfg.Params[name]; ok {
			return e.intC(v)
		}
		return args[1]
	}
	zzapi["zzDidPanic"] = func(e *Engine, args []Value, fn *ssa.Function) Value {
		return e.ctx.Bool(e.didPanic(args[0]) != nil)
	}
	zzapi["zzPanicMsg"] = func(e *Engine, args []Value, fn *ssa.Function) Value {
		p := e.didPanic(args[0])
		if p == nil {
			return Str{}
		}
		return Str{S: "panic at " + p.pos + ": " + p.msg}
	}
	zzapi["zzYield"] = func(e *Engine, args []Value, fn *ssa.Function) Value { e.yield(); return nil }
	zzapi["zzQuiesce"] = func(e *Engine, args []Value, fn *ssa.Function) Value { e.quiesce(); return nil }
	zzapi["zzLive"] = func(e *Engine, args []Value, fn *ssa.Function) Value {
		n, _ := e.liveGoroutines()
		return e.intC(n)
	}
	zzapi["zzUnwind"] = func(e *Engine, args []Value, fn *ssa.Function) Value {
		n, _ := concInt(args[0].(*smt.Term))
		if n <= 0 {
			delete(e.extraCtx, "unwind")
			delete(e.extraCtx, "unwindIsBug")
			return nil
		}
		e.extraCtx["unwind"] = n
		e.extraCtx["unwindIsBug"] = args[1].(*smt.Term).IsTrue()
		return nil
	}
	zzapi["zzTimers"] = func(e *Engine, args []Value, fn *ssa.Function) Value {
		n, _ := concInt(args[0].(*smt.Term))
		e.extraCtx["timers"] = n
		return nil
	}
	zzapi["zzUnwindIn"] = func(e *Engine, args []Value, fn *ssa.Function) Value {
		e.extraCtx["unwindFn"] = strArg(e, args[0])
		n, _ := concInt(args[1].(*smt.Term))
		if n <= 0 {
			delete(e.extraCtx, "unwind")
			delete(e.extraCtx, "unwindIsBug")
			delete(e.extraCtx, "unwindFn")
			return nil
		}
		e.extraCtx["unwind"] = n
		e.extraCtx["unwindIsBug"] = args[2].(*smt.Term).IsTrue()
		return nil
	}
	zzapi["zzClockAdvance"] = func(e *Engine, args []Value, fn *ssa.Function) Value {
		// advance the model clock by at least d nanoseconds
		c := e.clock()
		c.minNext = e.ctx.Add(c.last, args[0].(*smt.Term))
		return nil
	}
	zzapi["zzSetHidden"] = func(e *Engine, args []Value, fn *ssa.Function) Value {
		p, ok := args[0].(Iface).V.(Ptr)
		i, _ := concInt(args[1].(*smt.Term))
		if !ok || p.Obj == nil {
			e.unsupported("zzSetHidden on a non-pointer")
		}
		sub := e.sub(p.Obj, i)
		if _, isIface := sub.T.Underlying().(*types.Interface); isIface {
			e.store(sub, args[2])
		} else {
			e.store(sub, args[2].(Iface).V)
		}
		return nil
	}
	zzapi["zzGetHidden"] = func(e *Engine, args []Value, fn *ssa.Function) Value {
		p, ok := args[0].(Iface).V.(Ptr)
		i, _ := concInt(args[1].(*smt.Term))
		if !ok || p.Obj == nil {
			e.unsupported("zzGetHidden on a non-pointer")
		}
		sub := e.sub(p.Obj, i)
		v := e.load(sub)
		if iv, isIface := v.(Iface); isIface {
			return iv
		}
		return Iface{T: sub.T, V: v}
	}
	// zzAssignByTag(v interface{}, tag string, kv map[string]interface{}) string
	zzapi["zzAssignByTag"] = func(e *Engine, args []Value, fn *ssa.Function) Value {
		iv := args[0].(Iface)
		tag := strArg(e, args[1])
		kv, _ := args[2].(*MapObj)
		pt, ok := iv.T.(*types.Pointer)
		if !ok {
			return Str{}
		}
		st, ok := pt.Elem().Underlying().(*types.Struct)
		p, ok2 := iv.V.(Ptr)
		if !ok || !ok2 || p.Obj == nil {
			return Str{}
		}
		names := ""
		for i := 0; i < st.NumFields(); i++ {
			name := reflect.StructTag(st.Tag(i)).Get(tag)
			if i > 0 {
				names += ","
			}
			names += name
			if kv == nil || name == "" {
				continue
			}
			for k, key := range kv.Keys {
				ks, ok := key.(Str)
				if !ok || !ks.IsConcrete() || ks.Concrete() != name {
					continue
				}
				val := kv.Vals[k]
				if iv, ok := val.(Iface); ok {
					val = iv.V
				}
				e.store(e.sub(p.Obj, i), val)
			}
		}
		return Str{S: names}
	}
	zzapi["zzSameObject"] = func(e *Engine, args []Value, fn *ssa.Function) Value {
		a, b := args[0].(Iface), args[1].(Iface)
		pa, ok1 := a.V.(Ptr)
		pb, ok2 := b.V.(Ptr)
		return e.ctx.Bool(ok1 && ok2 && pa.Obj == pb.Obj)
	}
	// zzAliases(a, b []byte) bool: do the two slices share any element?
	zzapi["zzAliases"] = func(e *Engine, args []Value, fn *ssa.Function) Value {
		a, b := args[0].(Slice), args[1].(Slice)
		if a.Arr == nil || b.Arr == nil {
			return e.ctx.False
		}
		for i := 0; i < a.Cap; i++ {
			ea := a.Arr.Sub[a.Off+i]
			if ea == nil {
				continue
			}
			for j := 0; j < b.Cap; j++ {
				if b.Arr.Sub[b.Off+j] == ea {
					return e.ctx.True
				}
			}
		}
		if a.Arr == b.Arr {
			// same array: overlap of index ranges
			if a.Off < b.Off+b.Cap && b.Off < a.Off+a.Cap && a.Cap > 0 && b.Cap > 0 {
				return e.ctx.True
			}
		}
		return e.ctx.False
	}
}

// didPanic runs f and reports a Go panic escaping it.
func (e *Engine) didPanic(f Value) (gp *goPanic) {
	depth, sl := e.depth, len(e.stack)
	defer func() {
		if r := recover(); r != nil {
			if p, ok := r.(*goPanic); ok {
				e.stack = e.stack[:sl]
				e.depth = depth
				gp = p
				return
			}
			panic(r)
		}
	}()
	e.callValue(f, nil, nil)
	return nil
}

// ---- clock model ----
// The model clock is one 64-bit count of nanoseconds that only moves forward. A
// time.Time value produced by the model is {wall: 0, ext: ns, loc: nil}; every
// time.Time method the code under test uses is an intrinsic over that encoding
// (methods without an intrinsic are rejected as unsupported rather than run on it).
// "Seconds" (for layouts with second resolution) are windows of 2^30 ns (~1.07 s):
// this keeps 64-bit division by 10^9, which no available solver decides in
// reasonable time, out of the encoding while preserving "same second / later second".

type clockState struct {
	last    *smt.Term
	minNext *smt.Term
	maxNext *smt.Term // a timer that fired is at most timerSlackNs late (stated assumption)
}

const timerSlackNs = 50 * 1000000000

func (e *Engine) clock() *clockState {
	c, _ := e.extraCtx["clock"].(*clockState)
	if c == nil {
		c = &clockState{last: e.ctx.BV(1<<40, 64)}
		e.extraCtx["clock"] = c
	}
	return c
}

// clockNow returns a fresh instant >= the previous one.
func (e *Engine) clockNow() *smt.Term {
	c := e.clock()
	t := e.newNondetEnv("u64", 64, "time.Now")
	lo := c.last
	if c.minNext != nil {
		lo = c.minNext
		c.minNext = nil
	}
	c0 := e.ctx.And(e.ctx.Cmp(smt.OpBVUle, lo, t), e.ctx.Cmp(smt.OpBVUlt, t, e.ctx.BV(1<<61, 64)))
	if c.maxNext != nil {
		c0 = e.ctx.And(c0, e.ctx.Cmp(smt.OpBVUle, t, c.maxNext))
		c.maxNext = nil
	}
	e.assume(c0, "clock monotone (and a fired timer is less than 50 s late)")
	c.last = t
	return t
}

func (e *Engine) clockAdvanceTo(deadline *smt.Term) {
	if deadline == nil {
		return
	}
	c := e.clock()
	if c.minNext == nil {
		c.minNext = deadline
		c.maxNext = e.ctx.Add(deadline, e.ctx.BV(timerSlackNs, 64))
	}
}

func (e *Engine) timeValue(ns *smt.Term) Value {
	return &Struct{F: []Value{e.ctx.BV(0, 64), ns, Ptr{}}}
}

func (e *Engine) nowTimeValue() Value { return e.timeValue(e.clock().last) }

func (e *Engine) timeNs(v Value) *smt.Term { return v.(*Struct).F[1].(*smt.Term) }

func init() {
	reg("time.Now", func(e *Engine, args []Value, fn *ssa.Function) Value {
		return e.timeValue(e.clockNow())
	})
	reg("time.Since", func(e *Engine, args []Value, fn *ssa.Function) Value {
		return e.ctx.Sub(e.clockNow(), e.timeNs(args[0]))
	})
	reg("time.Until", func(e *Engine, args []Value, fn *ssa.Function) Value {
		return e.ctx.Sub(e.timeNs(args[0]), e.clockNow())
	})
	reg("time.Sleep", func(e *Engine, args []Value, fn *ssa.Function) Value {
		c := e.clock()
		c.minNext = e.ctx.Add(c.last, args[0].(*smt.Term))
		e.yield()
		return nil
	})
	after := func(e *Engine, args []Value, fn *ssa.Function) Value {
		c := e.clock()
		ch := e.newChan(1, nil)
		ch.timer = true
		ch.deadline = e.ctx.Add(c.last, args[0].(*smt.Term))
		return ch
	}
	reg("time.After", after)
	// tickers and timers: the channel of a ticker can fire repeatedly (each firing takes one
	// unit of the zzTimers budget and moves the clock to the next period); Stop disarms.
	newTimerObj := func(e *Engine, args []Value, fn *ssa.Function, ticker bool) Value {
		c := e.clock()
		ch := e.newChan(1, nil)
		ch.timer = true
		ch.deadline = e.ctx.Add(c.last, args[0].(*smt.Term))
		if ticker {
			ch.period = args[0].(*smt.Term)
			if _, ok := e.extraCtx["timers"]; !ok {
				e.extraCtx["timers"] = 8 // a ticker needs a budget: default when the harness sets none
			}
		}
		pt := fn.Signature.Results().At(0).Type().(*types.Pointer)
		o := e.newObj(pt.Elem())
		e.store(e.sub(o, 0), ch)
		return Ptr{Obj: o}
	}
	timerChan := func(e *Engine, v Value) *ChanObj {
		p := v.(Ptr)
		if p.Obj == nil {
			e.goPanicRT("invalid memory address or nil pointer dereference")
		}
		ch, _ := e.load(e.sub(p.Obj, 0)).(*ChanObj)
		return ch
	}
	reg("time.NewTicker", func(e *Engine, args []Value, fn *ssa.Function) Value { return newTimerObj(e, args, fn, true) })
	reg("time.NewTimer", func(e *Engine, args []Value, fn *ssa.Function) Value { return newTimerObj(e, args, fn, false) })
	reg("time.Tick", func(e *Engine, args []Value, fn *ssa.Function) Value {
		ch := after(e, args, fn).(*ChanObj)
		ch.period = args[0].(*smt.Term)
		return ch
	})
	reg("(*time.Ticker).Stop", func(e *Engine, args []Value, fn *ssa.Function) Value {
		if ch := timerChan(e, args[0]); ch != nil {
			ch.fired, ch.period = true, nil
		}
		return nil
	})
	reg("(*time.Ticker).Reset", func(e *Engine, args []Value, fn *ssa.Function) Value {
		if ch := timerChan(e, args[0]); ch != nil {
			ch.fired, ch.period = false, args[1].(*smt.Term)
			ch.deadline = e.ctx.Add(e.clock().last, ch.period)
		}
		return nil
	})
	reg("(*time.Timer).Stop", func(e *Engine, args []Value, fn *ssa.Function) Value {
		ch := timerChan(e, args[0])
		if ch == nil {
			return e.ctx.False
		}
		was := !ch.fired
		ch.fired = true
		if was {
			return e.ctx.True
		}
		return e.ctx.False
	})
	reg("(*time.Timer).Reset", func(e *Engine, args []Value, fn *ssa.Function) Value {
		ch := timerChan(e, args[0])
		if ch == nil {
			return e.ctx.False
		}
		was := !ch.fired
		ch.fired = false
		ch.deadline = e.ctx.Add(e.clock().last, args[1].(*smt.Term))
		if was {
			return e.ctx.True
		}
		return e.ctx.False
	})
	reg("(time.Time).Format", func(e *Engine, args []Value, fn *ssa.Function) Value {
		layout := strArg(e, args[1])
		t := e.timeNs(args[0])
		// a function of the finest unit the layout mentions, injective in that unit
		unit := t
		switch {
		case containsAny(layout, ".000", ".999"):
		case containsAny(layout, "05"):
			unit = e.ctx.Bin(smt.OpBVLShr, t, e.ctx.BV(30, 64))
		case containsAny(layout, "04"):
			unit = e.ctx.Bin(smt.OpBVLShr, t, e.ctx.BV(36, 64))
		default:
			unit = e.ctx.Bin(smt.OpBVLShr, t, e.ctx.BV(46, 64))
		}
		out := make([]*smt.Term, 0, 16)
		for i := 15; i >= 0; i-- {
			nib := e.ctx.Extract(e.ctx.Bin(smt.OpBVLShr, unit, e.ctx.BV(uint64(4*i), 64)), 7, 0)
			out = append(out, e.ctx.Add(e.ctx.Bin(smt.OpBVAnd, nib, e.ctx.BV(15, 8)), e.ctx.BV('A', 8)))
		}
		return e.mkStr(out)
	})
	// the model clock has no zone: UTC/Local are the identity
	reg("(time.Time).UTC", func(e *Engine, args []Value, fn *ssa.Function) Value { return args[0] })
	reg("(time.Time).Local", func(e *Engine, args []Value, fn *ssa.Function) Value { return args[0] })
	reg("(time.Time).Sub", func(e *Engine, args []Value, fn *ssa.Function) Value {
		return e.ctx.Sub(e.timeNs(args[0]), e.timeNs(args[1]))
	})
	reg("(time.Time).Add", func(e *Engine, args []Value, fn *ssa.Function) Value {
		return e.timeValue(e.ctx.Add(e.timeNs(args[0]), args[1].(*smt.Term)))
	})
	reg("(time.Time).AddDate", func(e *Engine, args []Value, fn *ssa.Function) Value {
		// calendar arithmetic approximated by fixed-length years/months (model clock only)
		y, m, d := args[1].(*smt.Term), args[2].(*smt.Term), args[3].(*smt.Term)
		days := e.ctx.Add(e.ctx.Add(e.ctx.Bin(smt.OpBVMul, y, e.intC(365)), e.ctx.Bin(smt.OpBVMul, m, e.intC(30))), d)
		return e.timeValue(e.ctx.Add(e.timeNs(args[0]), e.ctx.Bin(smt.OpBVMul, days, e.ctx.BV(86400*1000000000, 64))))
	})
	reg("(time.Time).After", func(e *Engine, args []Value, fn *ssa.Function) Value {
		return e.ctx.Cmp(smt.OpBVUlt, e.timeNs(args[1]), e.timeNs(args[0]))
	})
	reg("(time.Time).Before", func(e *Engine, args []Value, fn *ssa.Function) Value {
		return e.ctx.Cmp(smt.OpBVUlt, e.timeNs(args[0]), e.timeNs(args[1]))
	})
	reg("(time.Time).Equal", func(e *Engine, args []Value, fn *ssa.Function) Value {
		return e.ctx.Eq(e.timeNs(args[0]), e.timeNs(args[1]))
	})
	reg("(time.Time).IsZero", func(e *Engine, args []Value, fn *ssa.Function) Value {
		return e.ctx.Eq(e.timeNs(args[0]), e.ctx.BV(0, 64))
	})
	reg("(time.Time).UnixNano", func(e *Engine, args []Value, fn *ssa.Function) Value { return e.timeNs(args[0]) })
	reg("(time.Time).String", func(e *Engine, args []Value, fn *ssa.Function) Value { return Str{S: "<time>"} })
	reg("(time.Time).MarshalJSON", func(e *Engine, args []Value, fn *ssa.Function) Value {
		return Tuple{e.bytesToSlice(e.strBytes(Str{S: "\"<time>\""})), Iface{}}
	})
	_ = token.NoPos
	_ = types.Typ
}

func containsAny(s string, subs ...string) bool {
	for _, x := range subs {
		if len(x) <= len(s) {
			for i := 0; i+len(x) <= len(s); i++ {
				if s[i:i+len(x)] == x {
					return true
				}
			}
		}
	}
	return false
}

// normDigits replaces free-standing digit runs by '#' so that findings are grouped by
// kind, not by value; digits that are part of identifiers, paths or file:line stay.
func normDigits(s string) string {
	out := make([]byte, 0, len(s))
	isWord := func(c byte) bool {
		return c >= 'a' && c <= 'z' || c >= 'A' && c <= 'Z' || c == '_' || c == '.' || c == '/' || c == '#'
	}
	for i := 0; i < len(s); {
		c := s[i]
		if c < '0' || c > '9' {
			out = append(out, c)
			i++
			continue
		}
		j := i
		for j < len(s) && s[j] >= '0' && s[j] <= '9' {
			j++
		}
		keep := false
		if i > 0 && isWord(s[i-1]) {
			keep = true
		}
		if i >= 4 && s[i-1] == ':' && s[i-4:i-1] == ".go" {
			keep = true
		}
		if keep {
			out = append(out, s[i:j]...)
		} else {
			out = append(out, '#')
		}
		i = j
	}
	return string(out)
}
