//go:build verif

package telnet

import (
	"context"
	"io"
	"net"
	"time"

	"github.com/honeytrap/honeytrap/event"
)

type zzTCut struct {
	data []byte
	pos  int
	cut  int
	cut2 int // second cut (0: none); thorough tier
	out  []byte
}

func (c *zzTCut) Read(b []byte) (int, error) {
	if c.pos >= len(c.data) {
		return 0, io.EOF
	}
	end := len(c.data)
	if c.pos < c.cut {
		end = c.cut
	} else if c.cut2 > c.cut && c.pos < c.cut2 {
		end = c.cut2
	}
	n := copy(b, c.data[c.pos:end])
	c.pos += n
	return n, nil
}
func (c *zzTCut) Write(b []byte) (int, error)        { c.out = append(c.out, b...); return len(b), nil }
func (c *zzTCut) Close() error                       { return nil }
func (c *zzTCut) LocalAddr() net.Addr                { return &net.TCPAddr{IP: net.IPv4(10, 0, 0, 1), Port: 23} }
func (c *zzTCut) RemoteAddr() net.Addr               { return &net.TCPAddr{IP: net.IPv4(10, 9, 9, 9), Port: 40000} }
func (c *zzTCut) SetDeadline(t time.Time) error      { return nil }
func (c *zzTCut) SetReadDeadline(t time.Time) error  { return nil }
func (c *zzTCut) SetWriteDeadline(t time.Time) error { return nil }

type zzTRec struct{ evs []event.Event }

func (r *zzTRec) Send(e event.Event) { r.evs = append(r.evs, e) }

func zzStubXidT() (id [12]byte) { return }

// C04/telnet: user name, password and one command line, each possibly containing a
// multi-byte UTF-8 character, in one stream split at any position (also inside a
// multi-byte character): the login event and the command event carry exactly the text sent.
func zzH_C04_telnet() {
	words := []string{"ab", "aé", "€x"}
	user := words[zzLen(0, 2)]
	pass := words[zzLen(0, 2)]
	cmd := words[zzLen(0, 2)]
	stream := []byte(user + "\r\n" + pass + "\r\n" + cmd + "\r\n")
	cut := zzLen(1, len(stream))
	cut2 := 0
	if zzParam("CUTS", 1) == 2 && cut < len(stream) {
		cut2 = zzLen(cut, len(stream)) // cut2 == cut: no second cut
	}
	rec := &zzTRec{}
	s := &telnetService{Prompt: "$ ", MOTD: "hi"}
	s.SetChannel(rec)
	s.Handle(context.Background(), &zzTCut{data: stream, cut: cut, cut2: cut2})
	var gotUser, gotPass string
	var cmds []string
	logins := 0
	for _, e := range rec.evs {
		m := event.ToMap(e)
		switch m["type"] {
		case "password-authentication":
			logins++
			gotUser, _ = m["telnet.username"].(string)
			gotPass, _ = m["telnet.password"].(string)
		case "session":
			c, _ := m["telnet.command"].(string)
			cmds = append(cmds, c)
		}
	}
	zzAssert(logins == 1, "the login is reported exactly once, however the stream is segmented")
	zzAssert(gotUser == user && gotPass == pass, "the login event carries the user name and password sent")
	zzAssert(len(cmds) == 1 && cmds[0] == cmd, "the command line is reported exactly once with the text sent")
}

// C01+C09/bytes-telnet: any N bytes followed by the client going away: the handler returns
// (every loop bounded by the input), nothing panics outside the per-connection recover, no
// goroutine is left.
func zzH_C09_bytes_telnet() {
	n := zzLen(0, zzParam("N", 3))
	data := zzBytes(n)
	for i := 0; i < n; i++ {
		zzAssume(data[i] < 0x80) // ASCII: case mapping / rune decoding of symbolic non-ASCII bytes is beyond the solver budget
	}
	s := &telnetService{Prompt: "$ ", MOTD: "hi"}
	s.SetChannel(&zzTRec{})
	base := zzLive()
	zzUnwindIn("telnet", 4*n+24, true)
	zzDidPanic(func() { s.Handle(context.Background(), &zzTCut{data: data, cut: n}) })
	zzUnwindIn("", 0, false)
	zzQuiesce()
	zzAssert(zzLive() == base, "no goroutine created on the connection's behalf outlives the handler")
}
