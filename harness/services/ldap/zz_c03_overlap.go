//go:build verif

package ldap

import (
	"context"
	"io"
	"net"

	"github.com/honeytrap/honeytrap/event"
)

// zzGLConn: requests arrive in chunks; chunk i becomes readable once gate i is closed.
type zzGLConn struct {
	zzLConn
	chunks [][]byte
	gates  []chan struct{}
	cur    int
}

func (c *zzGLConn) Read(b []byte) (int, error) {
	for c.pos >= len(c.in) {
		if c.cur >= len(c.chunks) {
			return 0, io.EOF
		}
		k := c.cur
		<-c.gates[k]
		if c.cur == k { // (two handlers reading one connection must not trip the stub itself)
			c.in, c.pos = c.chunks[k], 0
			c.cur++
		}
	}
	n := copy(b, c.in[c.pos:])
	c.pos += n
	return n, nil
}

func zzNewGL(ip byte, chunks ...[]byte) *zzGLConn {
	c := &zzGLConn{chunks: chunks}
	c.remote = &net.TCPAddr{IP: net.IPv4(10, 9, 9, ip), Port: 40000 + int(ip)}
	c.local = &net.TCPAddr{IP: net.IPv4(10, 0, 0, 1), Port: 389}
	for range chunks {
		c.gates = append(c.gates, make(chan struct{}))
	}
	return c
}

// C03+C12/ldap-overlap: two sessions on ONE service instance that are open at the same
// time. A binds with configured credentials and later sends a gated operation; B never
// binds and sends a gated operation while A is open. The order of the four steps is chosen
// by the harness (B may start before or after A's bind). A's operation must be accepted, B's
// refused, and every reply and event must belong to the session that caused it.
func zzH_C03_ldapoverlap() {
	rec := &zzLRec{}
	s := &ldapService{Server: Server{Handlers: make([]requestHandler, 0, 4), Credentials: []string{"root:root"},
		DSE: &DSE{SupportedLDAPVersion: []string{"2", "3"}}}}
	s.setHandlers()
	s.SetChannel(rec)
	opA := zzGated[zzLen(0, len(zzGated)-1)]
	opB := zzGated[zzLen(0, len(zzGated)-1)]
	a := zzNewGL(1, zzBindReq(1, "cn=root", "root"), zzGatedReq(2, opA), nil)
	b := zzNewGL(2, zzGatedReq(7, opB), nil)
	doneA, doneB := false, false
	startA := func() {
		go func() { s.Handle(context.Background(), a); doneA = true }()
		zzQuiesce()
	}
	startB := func() {
		go func() { s.Handle(context.Background(), b); doneB = true }()
		zzQuiesce()
	}
	step := func(c *zzGLConn, i int) { close(c.gates[i]); zzQuiesce() }
	switch zzLen(0, 2) {
	case 0: // A binds, then B connects and tries, then A continues
		startA()
		step(a, 0)
		startB()
		step(b, 0)
		step(a, 1)
	case 1: // B connects first, A binds, B tries, A continues
		startB()
		startA()
		step(a, 0)
		step(b, 0)
		step(a, 1)
	case 2: // A binds and continues while B is connected but silent; B tries last
		startA()
		startB()
		step(a, 0)
		step(a, 1)
		step(b, 0)
	}
	step(a, 2)
	step(b, 1)
	zzAssert(zzAnd(doneA, doneB), "both handlers return once their clients are gone")
	zzAssert(len(a.out) == 2, "the authenticated session gets exactly its two replies (bind result, operation result)")
	zzAssert(len(b.out) == 1, "the unauthenticated session gets exactly one reply")
	if len(a.out) == 2 {
		id1, code1, ok1 := zzResultCode(a.out[0])
		id2, code2, ok2 := zzResultCode(a.out[1])
		zzAssert(ok1 && id1 == 1 && code1 == ResSuccess, "the bind with configured credentials succeeds")
		zzAssert(ok2 && id2 == 2, "the authenticated session's operation is answered on its own connection")
		zzAssert(ok2 && code2 != ResUnwillingToPerform, "another session's presence does not log the authenticated session out")
	}
	if len(b.out) == 1 {
		id, code, ok := zzResultCode(b.out[0])
		zzAssert(ok && id == 7, "the unauthenticated session's request is answered on its own connection")
		zzAssert(ok && code == ResUnwillingToPerform, "another session's login does not authenticate this session")
	}
	for _, ev := range rec.evs {
		m := event.ToMap(ev)
		id, _ := m["ldap.message-id"].(int64)
		src, _ := m["source-ip"].(string)
		zzAssert((id == 7) == (src == "10.9.9.2"), "events carry the address of the session that sent the request")
	}
}
