#!/bin/bash
# usage: confirm_seed.sh C07 a   -- confirms a seeded change in the scratch worktree /tmp/wt/<id> (pinned commit)
# and, when confirmed, copies it to /verif/seeded/<id>-<v>/
id=$1; v=$2
SRC=${SRC:-/tmp/seed-out}; WTROOT=${WTROOT:-/tmp/wt}; BASE=${BASE:-9e33565}
src=$SRC/$id/$v
wt=$WTROOT/$id
out=/verif/seeded/$id-$v
export GOFLAGS=-mod=mod GOPROXY=off GOSUMDB=off GOTOOLCHAIN=local
log=$src/confirm.log
: > $log
[ -d $wt ] || git -C /repo worktree add --detach $wt $BASE >>$log 2>&1
git -C $wt checkout -q $BASE -- . 2>>$log; git -C $wt checkout -- . ; git -C $wt clean -fdq
place_demo() {
  if [ -n "$(find $src/demo -mindepth 1 -type d 2>/dev/null)" ]; then
    (cd $src/demo && find . -type f | while read f; do mkdir -p $wt/$(dirname $f); cp $f $wt/$f; done)
  else
    dest=$(python3 -c "import json;print(json.load(open('$src/meta.json')).get('demo_dest',''))")
    for f in $src/demo/*; do
      if [ -d "$wt/$dest" ]; then cp $f $wt/$dest/; else mkdir -p $wt/$(dirname $dest); cp $f $wt/$(dirname $dest)/$(basename $f); fi
    done
  fi
}
democmd=$(python3 -c "import json;print(json.load(open('$src/meta.json')).get('demo_cmd',''))")
democmd=${democmd//\/tmp\/wt2\/$id/$wt}; democmd=${democmd//\/tmp\/wt\/$id/$wt}
run_demo() { (cd $wt && timeout 900 bash -c "$democmd") >>$log 2>&1; }
place_demo
echo "== demo on unchanged tree" >>$log; run_demo; r_clean=$?
git -C $wt apply $src/patch.diff >>$log 2>&1 || { echo "RESULT $id-$v patch-does-not-apply"; exit 1; }
echo "== build with patch" >>$log; (cd $wt && go build ./... && go test -vet=off -count=1 -run '^$' ./... ) >>$log 2>&1; r_build=$?
echo "== demo with patch" >>$log; run_demo; r_patch=$?
# existing tests without the demo
git -C $wt clean -fdq
echo "== existing tests with patch" >>$log
(cd $wt && timeout 1500 go test -vet=off -count=1 -timeout 20m $(go list ./... | grep -v ja3/crypto/tls)) >>$log 2>&1; r_tests=$?
git -C $wt checkout -- . ; git -C $wt clean -fdq
rm -rf $wt/services/smtp/badger.db
status="clean_demo=$r_clean build=$r_build patched_demo=$r_patch existing_tests=$r_tests"
if [ $r_clean -eq 0 ] && [ $r_build -eq 0 ] && [ $r_patch -ne 0 ] && [ $r_tests -eq 0 ]; then
  mkdir -p $out; cp -r $src/patch.diff $src/demo $out/
  python3 - <<PY
import json
m=json.load(open('$src/meta.json'))
m['base_commit']='$BASE'
m['confirmed']={'by':'tools/confirm_seed.sh in scratch worktree $wt at commit $BASE','demo_on_unchanged_tree':'pass','build_with_patch':'ok','demo_with_patch':'fail (as required)','existing_tests_with_patch':'pass (all packages except services/ja3/crypto/tls, which the change does not touch)'}
json.dump(m,open('$out/meta.json','w'),indent=1)
PY
  echo "RESULT $id-$v CONFIRMED $status"
else
  echo "RESULT $id-$v NOT-CONFIRMED $status (see $log)"
fi
