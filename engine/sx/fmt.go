package sx

import (
	"fmt"
	"go/types"
	"strconv"
	"strings"

	"gosx/smt"
)

// sprintf: a mini formatter sufficient for honeytrap's uses. The format must be concrete.
func (e *Engine) sprintf(format Str, args Slice) Str {
	if !format.IsConcrete() {
		e.unsupported("symbolic format string")
	}
	f := format.Concrete()
	var out []*smt.Term
	emit := func(s string) {
		for i := 0; i < len(s); i++ {
			out = append(out, e.ctx.BV(uint64(s[i]), 8))
		}
	}
	argi := 0
	for i := 0; i < len(f); i++ {
		if f[i] != '%' {
			out = append(out, e.ctx.BV(uint64(f[i]), 8))
			continue
		}
		i++
		if i >= len(f) {
			emit("%!(NOVERB)")
			break
		}
		if f[i] == '%' {
			emit("%")
			continue
		}
		// flags / width / precision
		start := i
		for i < len(f) && strings.IndexByte("+-# 0123456789.*", f[i]) >= 0 {
			i++
		}
		flags := f[start:i]
		if i >= len(f) {
			emit("%!(NOVERB)")
			break
		}
		verb := f[i]
		if argi >= args.Len {
			emit("%!" + string(verb) + "(MISSING)")
			continue
		}
		a := e.load(e.sub(args.Arr, args.Off+argi)).(Iface)
		argi++
		out = append(out, e.strBytes(e.formatArg(a, verb, flags))...)
	}
	return e.mkStr(out)
}

func (e *Engine) sprint(args Slice, spaces bool) Str {
	var out []*smt.Term
	for i := 0; i < args.Len; i++ {
		a := e.load(e.sub(args.Arr, args.Off+i)).(Iface)
		if i > 0 && spaces {
			out = append(out, e.ctx.BV(' ', 8))
		}
		out = append(out, e.strBytes(e.formatArg(a, 'v', ""))...)
	}
	return e.mkStr(out)
}

func (e *Engine) formatArg(a Iface, verb byte, flags string) Str {
	if a.T == nil {
		return Str{S: "<nil>"}
	}
	// error / Stringer first (as fmt does for %v %s %q)
	if verb == 'v' || verb == 's' || verb == 'q' {
		if a.T == gosxErrType || a.T == rtErrType {
			return a.V.(Str)
		}
		for _, mname := range []string{"Error", "String"} {
			if m := e.methodOf(a.T, mname); m != nil {
				sig := m.Signature
				if sig.Params().Len() == 0 && sig.Results().Len() == 1 && isString(sig.Results().At(0).Type()) {
					if p, ok := a.V.(Ptr); ok && p.Obj == nil {
						return Str{S: "<nil>"}
					}
					r := e.callValue(&Closure{Fn: m}, []Value{a.V}, nil)
					if s, ok := r.(Str); ok {
						if verb == 'q' {
							return e.quote(s)
						}
						return s
					}
				}
			}
		}
	}
	switch v := a.V.(type) {
	case Str:
		switch verb {
		case 'q':
			return e.quote(v)
		case 'x', 'X':
			return e.hexOf(e.strBytes(v), verb == 'X')
		}
		return v
	case *smt.Term:
		if v.W == 0 {
			if v.IsConst() {
				return Str{S: strconv.FormatBool(v.C == 1)}
			}
			if e.branch(v) {
				return Str{S: "true"}
			}
			return Str{S: "false"}
		}
		signed := isSigned(a.T)
		if v.IsConst() {
			var s string
			ff := "%" + flags + string(verb)
			if signed {
				s = fmt.Sprintf(ff, v.Signed())
			} else {
				s = fmt.Sprintf(ff, v.C)
			}
			if verb == 'c' {
				s = string(rune(v.C))
			}
			return Str{S: s}
		}
		switch verb {
		case 'd', 'v':
			if flags == "" {
				return e.formatDec(v, signed)
			}
		case 'c':
			return e.mkStr([]*smt.Term{e.ctx.Extract(v, 7, 0)})
		case 'x', 'X':
			if v.W == 8 && (flags == "02" || flags == "") {
				if flags == "02" {
					return e.hexOf([]*smt.Term{v}, verb == 'X')
				}
			}
		}
		e.rep.FuncsOpaque["fmt:opaque-symbolic-int-verb-%"+flags+string(verb)]++
		return Str{S: "<sym>"}
	case Slice:
		if el, ok := a.T.Underlying().(*types.Slice); ok {
			if b, ok := el.Elem().Underlying().(*types.Basic); ok && b.Kind() == types.Uint8 {
				bs := e.sliceBytes(v)
				switch verb {
				case 's':
					return e.mkStr(bs)
				case 'x', 'X':
					return e.hexOf(bs, verb == 'X')
				case 'q':
					return e.quote(e.mkStr(bs))
				}
			}
		}
	case Ptr:
		if v.Obj == nil {
			return Str{S: "<nil>"}
		}
		return Str{S: fmt.Sprintf("0xc%07x", v.Obj.ID)}
	case Float:
		return Str{S: fmt.Sprintf("%"+flags+string(verb), v.F)}
	}
	e.rep.FuncsOpaque["fmt:opaque-"+a.T.String()]++
	return Str{S: "<" + a.T.String() + ">"}
}

func (e *Engine) methodOf(t types.Type, name string) *ssaFunction {
	ms := e.prog.MethodSets.MethodSet(t)
	for i := 0; i < ms.Len(); i++ {
		if ms.At(i).Obj().Name() == name {
			return e.prog.MethodValue(ms.At(i))
		}
	}
	return nil
}

func (e *Engine) hexOf(bs []*smt.Term, upper bool) Str {
	out := make([]*smt.Term, 0, 2*len(bs))
	base := uint64('a' - 10)
	if upper {
		base = 'A' - 10
	}
	dig := func(n *smt.Term) *smt.Term { // n: 8-bit term < 16
		return e.ctx.Ite(e.ctx.Cmp(smt.OpBVUlt, n, e.ctx.BV(10, 8)), e.ctx.Add(n, e.ctx.BV('0', 8)), e.ctx.Add(n, e.ctx.BV(base, 8)))
	}
	for _, b := range bs {
		out = append(out, dig(e.ctx.Bin(smt.OpBVLShr, b, e.ctx.BV(4, 8))), dig(e.ctx.Bin(smt.OpBVAnd, b, e.ctx.BV(15, 8))))
	}
	return e.mkStr(out)
}

func (e *Engine) quote(s Str) Str {
	if s.IsConcrete() {
		return Str{S: strconv.Quote(s.Concrete())}
	}
	e.rep.FuncsOpaque["fmt:%q-of-symbolic-string-approximated"]++
	bs := append([]*smt.Term{e.ctx.BV('"', 8)}, e.strBytes(s)...)
	return e.mkStr(append(bs, e.ctx.BV('"', 8)))
}

// formatDec renders a symbolic integer in decimal by forking on the digit count.
func (e *Engine) formatDec(v *smt.Term, signed bool) Str {
	w := v.W
	var out []*smt.Term
	u := v
	if signed {
		if e.branch(e.ctx.Cmp(smt.OpBVSlt, v, e.ctx.BV(0, w))) {
			out = append(out, e.ctx.BV('-', 8))
			u = e.ctx.BVNeg(v)
		}
	}
	// number of digits
	maxDigits := map[int]int{8: 3, 16: 5, 32: 10, 64: 20}[w]
	nd := maxDigits
	p := uint64(10)
	for d := 1; d < maxDigits; d++ {
		if e.branch(e.ctx.Cmp(smt.OpBVUlt, u, e.ctx.BV(p, w))) {
			nd = d
			break
		}
		p *= 10
	}
	digs := make([]*smt.Term, nd)
	div := uint64(1)
	for i := nd - 1; i >= 0; i-- {
		q := u
		if div > 1 {
			q = e.ctx.Bin(smt.OpBVUDiv, u, e.ctx.BV(div, w))
		}
		d := e.ctx.Bin(smt.OpBVURem, q, e.ctx.BV(10, w))
		digs[i] = e.ctx.Add(e.ctx.Extract(d, 7, 0), e.ctx.BV('0', 8))
		div *= 10
	}
	return e.mkStr(append(out, digs...))
}
