//go:build verif

package ssh

import (
	"context"
	"errors"
	"net"
	"time"

	"github.com/honeytrap/honeytrap/event"
	"golang.org/x/crypto/ssh"
)

type zzSRec struct{ evs []event.Event }

func (r *zzSRec) Send(e event.Event) { r.evs = append(r.evs, e) }

type zzMeta struct{ user string }

func (m zzMeta) User() string          { return m.user }
func (m zzMeta) SessionID() []byte     { return nil }
func (m zzMeta) ClientVersion() []byte { return []byte("SSH-2.0-zz") }
func (m zzMeta) ServerVersion() []byte { return []byte("SSH-2.0-hp") }
func (m zzMeta) RemoteAddr() net.Addr  { return &net.TCPAddr{IP: net.IPv4(10, 9, 9, 9), Port: 40000} }
func (m zzMeta) LocalAddr() net.Addr   { return &net.TCPAddr{IP: net.IPv4(10, 0, 0, 1), Port: 22} }

var (
	zzSUser     string
	zzSAttempts []string
	zzSAccepted int // index of the first accepted attempt, -1 if none
)

// model of ssh.NewServerConn for password authentication: the client presents its
// passwords one after the other until one is accepted (what a retrying client does),
// then the connection is dropped. The native twin performs a real SSH handshake.
func zzStubNewServerConn(c net.Conn, config *ssh.ServerConfig) (*ssh.ServerConn, <-chan ssh.NewChannel, <-chan *ssh.Request, error) {
	zzSAccepted = -1
	for i, pw := range zzSAttempts {
		_, err := config.PasswordCallback(zzMeta{zzSUser}, []byte(pw))
		if err == nil {
			zzSAccepted = i
			break
		}
	}
	return nil, nil, nil, errors.New("ssh: client went away after authentication")
}

func zzStubAddHostKey(c *ssh.ServerConfig, k ssh.Signer) {}

type zzNullConn struct{}

func (zzNullConn) Read(b []byte) (int, error)         { return 0, errors.New("closed") }
func (zzNullConn) Write(b []byte) (int, error)        { return len(b), nil }
func (zzNullConn) Close() error                       { return nil }
func (zzNullConn) LocalAddr() net.Addr                { return &net.TCPAddr{IP: net.IPv4(10, 0, 0, 1), Port: 22} }
func (zzNullConn) RemoteAddr() net.Addr               { return &net.TCPAddr{IP: net.IPv4(10, 9, 9, 9), Port: 40000} }
func (zzNullConn) SetDeadline(t time.Time) error      { return nil }
func (zzNullConn) SetReadDeadline(t time.Time) error  { return nil }
func (zzNullConn) SetWriteDeadline(t time.Time) error { return nil }

var zzSCreds = []string{"root:root", "root:admin", "admin:123456", "*", "guest:", "broken"}
var zzSUsers = []string{"root", "admin", "guest", ""}

// C12/ssh: credential sets of size 0..S over a table (incl. the wildcard, a pair with
// empty password and a malformed entry), one user, 1..A password attempts with
// symbolic passwords.
func zzH_C12_ssh() {
	rec := &zzSRec{}
	s := &sshSimulatorService{Banner: "SSH-2.0-OpenSSH_6.6.1p1", MaxAuthTries: -1}
	s.SetChannel(rec)
	n := zzLen(0, zzParam("S", 2))
	s.Credentials = nil
	for i := 0; i < n; i++ {
		s.Credentials = append(s.Credentials, zzSCreds[zzLen(0, len(zzSCreds)-1)])
	}
	zzSUser = zzSUsers[zzLen(0, len(zzSUsers)-1)]
	a := zzLen(1, zzParam("A", 2))
	zzSAttempts = nil
	for i := 0; i < a; i++ {
		l := []int{0, 4, 5, 6}[zzLen(0, 3)]
		pw := zzString(l)
		for j := 0; j < l; j++ {
			zzAssume(pw[j] >= 0x21 && pw[j] <= 0x7e && pw[j] != ':')
		}
		zzSAttempts = append(zzSAttempts, pw)
	}

	var conn net.Conn = zzNullConn{}
	if !zzSymbolic() {
		conn = zzNativeSSH(s)
		if conn == nil {
			return
		}
	}
	s.Handle(context.Background(), conn)
	if !zzSymbolic() && zzNativeDone != nil {
		<-zzNativeDone
	}

	// reference
	accepts := func(pw string) bool {
		ok := false
		for _, c := range s.Credentials {
			if c == "*" {
				ok = true
			}
			ok = zzOr(ok, c == zzSUser+":"+pw)
		}
		return ok
	}
	want := -1
	for i, pw := range zzSAttempts {
		if want < 0 && accepts(pw) {
			want = i
		}
	}
	zzAssert(zzSAccepted == want, "a password attempt succeeds exactly when user:password is in the credential set (or the set holds the wildcard), independently of earlier failed attempts")
	// one authentication event per attempt made, carrying user and password presented
	made := len(zzSAttempts)
	if want >= 0 {
		made = want + 1
	}
	k := 0
	for _, ev := range rec.evs {
		m := event.ToMap(ev)
		if m["type"] != "password-authentication" {
			continue
		}
		if k < made {
			zzAssert(m["ssh.username"] == zzSUser, "the authentication event carries the user name")
			zzAssert(m["ssh.password"] == zzSAttempts[k], "the authentication event carries the password presented")
		}
		k++
	}
	zzAssert(k == made, "every password attempt produces exactly one authentication event")
}

func zzStubXid() (id [12]byte) { return }
