// Package sx: a symbolic interpreter for go/ssa.
package sx

import (
	"fmt"
	"go/types"

	"gosx/smt"

	"golang.org/x/tools/go/ssa"
)

// Value is one of:
//
//	*smt.Term            bool / integer scalars
//	Float                float32/64 (concrete only)
//	Complex              (unsupported beyond zero)
//	Ptr                  pointer (Obj == nil: nil pointer)
//	Slice                slice header (Arr == nil: nil slice)
//	Str                  string
//	*Struct              struct value (immutable once built; copied on store)
//	*Array               array value
//	Iface                interface value (T == nil: nil interface)
//	*MapObj              map (nil pointer: nil map)
//	*ChanObj             channel
//	*Closure             function value (nil pointer: nil func)
//	Tuple                multiple results
//	*Iter                range iterator
type Value interface{}

type Float struct{ F float64 }

type Ptr struct {
	Obj *Obj
	// symbolic element pointer: &arr[Off+Idx] with Idx a term in [0,N) (Obj == nil then)
	Arr *Obj
	Off int
	N   int
	Idx *smt.Term
}

type Slice struct {
	Arr           *Obj // array object
	Off, Len, Cap int
}

type Str struct {
	S   string      // concrete content when Sym == nil
	Sym []*smt.Term // per-byte terms (width 8) when any byte is symbolic
}

type Struct struct{ F []Value }
type Array struct{ E []Value }

type Iface struct {
	T types.Type
	V Value
}

type Tuple []Value

type Closure struct {
	Fn  *ssa.Function
	Env []Value
	// Builtin / intrinsic bound function
	Native func(e *Engine, args []Value) Value
	Name   string
}

type MapObj struct {
	ID    int
	T     *types.Map
	Keys  []Value
	Vals  []Value
	epoch int
}

type Iter struct {
	Str   *Str
	Map   *MapObj
	Pos   int
	Keys  []Value // snapshot for maps
	Vals  []Value
	IsStr bool
}

// Obj is a node of the location tree: a leaf holding a Value, or a struct/array
// whose Sub nodes are the fields/elements (created lazily).
type Obj struct {
	ID     int
	T      types.Type
	V      Value
	Sub    []*Obj
	IsAgg  bool // struct or array
	epoch  int
	Parent *Obj
	Idx    int
	Tag    string
}

func (s Str) Len() int {
	if s.Sym != nil {
		return len(s.Sym)
	}
	return len(s.S)
}

func (s Str) IsConcrete() bool {
	if s.Sym == nil {
		return true
	}
	for _, t := range s.Sym {
		if !t.IsConst() {
			return false
		}
	}
	return true
}

func (s Str) Concrete() string {
	if s.Sym == nil {
		return s.S
	}
	b := make([]byte, len(s.Sym))
	for i, t := range s.Sym {
		b[i] = byte(t.C)
	}
	return string(b)
}

func (e *Engine) strByte(s Str, i int) *smt.Term {
	if s.Sym != nil {
		return s.Sym[i]
	}
	return e.ctx.BV(uint64(s.S[i]), 8)
}

func (e *Engine) strBytes(s Str) []*smt.Term {
	if s.Sym != nil {
		return s.Sym
	}
	r := make([]*smt.Term, len(s.S))
	for i := 0; i < len(s.S); i++ {
		r[i] = e.ctx.BV(uint64(s.S[i]), 8)
	}
	return r
}

func (e *Engine) mkStr(bs []*smt.Term) Str {
	conc := true
	for _, t := range bs {
		if !t.IsConst() {
			conc = false
			break
		}
	}
	if conc {
		b := make([]byte, len(bs))
		for i, t := range bs {
			b[i] = byte(t.C)
		}
		return Str{S: string(b)}
	}
	cp := make([]*smt.Term, len(bs))
	copy(cp, bs)
	return Str{Sym: cp}
}

func (s Str) slice(lo, hi int) Str {
	if s.Sym != nil {
		return Str{Sym: s.Sym[lo:hi]}
	}
	return Str{S: s.S[lo:hi]}
}

func isAggregate(t types.Type) bool {
	switch t.Underlying().(type) {
	case *types.Struct, *types.Array:
		return true
	}
	return false
}

func (e *Engine) newObj(t types.Type) *Obj {
	e.nextObj++
	o := &Obj{ID: e.nextObj, T: t, epoch: e.epoch}
	switch u := t.Underlying().(type) {
	case *types.Struct:
		o.IsAgg = true
		o.Sub = make([]*Obj, u.NumFields())
	case *types.Array:
		o.IsAgg = true
		o.Sub = make([]*Obj, int(u.Len()))
	}
	return o
}

// newArrayObj creates an array object of n elements of type elem.
func (e *Engine) newArrayObj(elem types.Type, n int) *Obj {
	e.nextObj++
	return &Obj{ID: e.nextObj, T: types.NewArray(elem, int64(n)), IsAgg: true, Sub: make([]*Obj, n), epoch: e.epoch}
}

func subType(t types.Type, i int) types.Type {
	switch u := t.Underlying().(type) {
	case *types.Struct:
		return u.Field(i).Type()
	case *types.Array:
		return u.Elem()
	}
	panic("subType of non-aggregate " + t.String())
}

func (e *Engine) sub(o *Obj, i int) *Obj {
	if i < 0 || i >= len(o.Sub) {
		panic(fmt.Sprintf("gosx internal: sub index %d out of %d (%s)", i, len(o.Sub), o.T))
	}
	s := o.Sub[i]
	if s == nil {
		s = e.newObj(subType(o.T, i))
		s.epoch = o.epoch // lazily materialised parts belong to their parent's epoch
		s.Parent, s.Idx = o, i
		if o.epoch != e.epoch {
			// materialising a part of a frozen object: log so it is reset with the path
			e.undo = append(e.undo, func() { o.Sub[i] = nil })
		}
		o.Sub[i] = s
	}
	return s
}

func (e *Engine) load(o *Obj) Value {
	if o.IsAgg {
		switch o.T.Underlying().(type) {
		case *types.Struct:
			st := &Struct{F: make([]Value, len(o.Sub))}
			for i := range o.Sub {
				if o.Sub[i] == nil {
					st.F[i] = e.zero(subType(o.T, i))
				} else {
					st.F[i] = e.load(o.Sub[i])
				}
			}
			return st
		default:
			ar := &Array{E: make([]Value, len(o.Sub))}
			var z Value
			for i := range o.Sub {
				if o.Sub[i] == nil {
					if z == nil {
						z = e.zero(subType(o.T, i))
					}
					ar.E[i] = z
				} else {
					ar.E[i] = e.load(o.Sub[i])
				}
			}
			return ar
		}
	}
	if o.V == nil {
		o.V = e.zero(o.T)
	}
	return o.V
}

func (e *Engine) store(o *Obj, v Value) {
	if o.IsAgg {
		switch x := v.(type) {
		case *Struct:
			for i := range o.Sub {
				e.store(e.sub(o, i), x.F[i])
			}
		case *Array:
			for i := range o.Sub {
				if o.Sub[i] == nil {
					// storing zero into unmaterialised cell: still materialise (cheap enough)
				}
				e.store(e.sub(o, i), x.E[i])
			}
		default:
			panic(fmt.Sprintf("gosx internal: store %T into aggregate %s", v, o.T))
		}
		return
	}
	if o.epoch != e.epoch {
		old := o.V
		e.undo = append(e.undo, func() { o.V = old })
	}
	o.V = v
}

func (e *Engine) zero(t types.Type) Value {
	switch u := t.Underlying().(type) {
	case *types.Basic:
		switch {
		case u.Info()&types.IsBoolean != 0:
			return e.ctx.False
		case u.Info()&types.IsInteger != 0:
			return e.ctx.BV(0, e.width(u))
		case u.Info()&types.IsFloat != 0:
			return Float{0}
		case u.Info()&types.IsString != 0:
			return Str{}
		case u.Kind() == types.UnsafePointer:
			return Ptr{}
		case u.Info()&types.IsComplex != 0:
			return Float{0}
		case u.Kind() == types.UntypedNil:
			return Ptr{}
		}
	case *types.Pointer:
		return Ptr{}
	case *types.Slice:
		return Slice{}
	case *types.Struct:
		st := &Struct{F: make([]Value, u.NumFields())}
		for i := range st.F {
			st.F[i] = e.zero(u.Field(i).Type())
		}
		return st
	case *types.Array:
		ar := &Array{E: make([]Value, int(u.Len()))}
		if len(ar.E) > 0 {
			z := e.zero(u.Elem())
			for i := range ar.E {
				ar.E[i] = z
			}
		}
		return ar
	case *types.Interface:
		return Iface{}
	case *types.Map:
		return (*MapObj)(nil)
	case *types.Chan:
		return (*ChanObj)(nil)
	case *types.Signature:
		return (*Closure)(nil)
	case *types.Tuple:
		tp := make(Tuple, u.Len())
		for i := range tp {
			tp[i] = e.zero(u.At(i).Type())
		}
		return tp
	}
	panic("gosx: zero of " + t.String())
}

func (e *Engine) width(b *types.Basic) int {
	switch b.Kind() {
	case types.Int8, types.Uint8:
		return 8
	case types.Int16, types.Uint16:
		return 16
	case types.Int32, types.Uint32, types.UntypedRune:
		return 32
	case types.Int64, types.Uint64, types.Int, types.Uint, types.Uintptr, types.UntypedInt:
		return 64
	case types.Bool, types.UntypedBool:
		return 0
	}
	panic("gosx: width of " + b.String())
}

func isSigned(t types.Type) bool {
	b, ok := t.Underlying().(*types.Basic)
	return ok && b.Info()&types.IsInteger != 0 && b.Info()&types.IsUnsigned == 0
}

func isInteger(t types.Type) bool {
	b, ok := t.Underlying().(*types.Basic)
	return ok && b.Info()&types.IsInteger != 0
}

func isString(t types.Type) bool {
	b, ok := t.Underlying().(*types.Basic)
	return ok && b.Info()&types.IsString != 0
}

func isFloat(t types.Type) bool {
	b, ok := t.Underlying().(*types.Basic)
	return ok && b.Info()&(types.IsFloat|types.IsComplex) != 0
}

func isBool(t types.Type) bool {
	b, ok := t.Underlying().(*types.Basic)
	return ok && b.Info()&types.IsBoolean != 0
}

func (e *Engine) typeWidth(t types.Type) int {
	return e.width(t.Underlying().(*types.Basic))
}

// intConst builds an int (64-bit) constant.
func (e *Engine) intC(v int) *smt.Term { return e.ctx.BV(uint64(int64(v)), 64) }

// concInt returns the concrete value of a term interpreted as signed, if constant.
func concInt(t *smt.Term) (int, bool) {
	if t.IsConst() {
		return int(t.Signed()), true
	}
	return 0, false
}
