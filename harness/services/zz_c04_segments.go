//go:build verif

package services

import (
	"context"
	"io"
	"net"
	"time"

	"github.com/honeytrap/honeytrap/event"
)

// zzCutConn: a TCP stream delivered in two segments (cut position chosen by the harness),
// or in one (cut = len).
type zzCutConn struct {
	data []byte
	pos  int
	cut  int
	cut2 int // second cut (0: none); thorough tier
	out  []byte
}

func (c *zzCutConn) Read(b []byte) (int, error) {
	if c.pos >= len(c.data) {
		return 0, io.EOF
	}
	end := len(c.data)
	if c.pos < c.cut {
		end = c.cut
	} else if c.cut2 > c.cut && c.pos < c.cut2 {
		end = c.cut2
	}
	n := copy(b, c.data[c.pos:end])
	c.pos += n
	return n, nil
}
func (c *zzCutConn) Write(b []byte) (int, error) { c.out = append(c.out, b...); return len(b), nil }
func (c *zzCutConn) Close() error                { return nil }
func (c *zzCutConn) LocalAddr() net.Addr         { return &net.TCPAddr{IP: net.IPv4(10, 0, 0, 1), Port: 11211} }
func (c *zzCutConn) RemoteAddr() net.Addr {
	return &net.TCPAddr{IP: net.IPv4(10, 9, 9, 9), Port: 40000}
}
func (c *zzCutConn) SetDeadline(t time.Time) error      { return nil }
func (c *zzCutConn) SetReadDeadline(t time.Time) error  { return nil }
func (c *zzCutConn) SetWriteDeadline(t time.Time) error { return nil }

type zzEvRec struct{ evs []event.Event }

func (r *zzEvRec) Send(e event.Event) { r.evs = append(r.evs, e) }

func zzFieldList(evs []event.Event, typ, key string) []string {
	var out []string
	for _, e := range evs {
		m := event.ToMap(e)
		if typ != "" && m["type"] != typ {
			continue
		}
		s, _ := m[key].(string)
		out = append(out, s)
	}
	return out
}

// C04/memcached-tcp: two commands (keys symbolic) pipelined in one stream that is split at
// any position: exactly one event per command, in order, with the command text.
func zzH_C04_memcached() {
	cmds := []string{"get ", "delete ", "incr "}
	k1, k2 := zzString(2), zzString(2)
	for _, k := range []string{k1, k2} {
		for j := 0; j < len(k); j++ {
			zzAssume(zzAnd(k[j] > 0x20, k[j] < 0x7f))
		}
	}
	c1 := cmds[zzLen(0, len(cmds)-1)] + k1
	c2 := "stats"
	if zzLen(0, 1) == 1 {
		c2 = cmds[zzLen(0, len(cmds)-1)] + k2
	}
	stream := []byte(c1 + "\r\n" + c2 + "\r\n")
	cut := zzLen(1, len(stream))
	cut2 := 0
	if zzParam("CUTS", 1) == 2 && cut < len(stream) {
		cut2 = zzLen(cut, len(stream)) // cut2 == cut: no second cut
	}
	rec := &zzEvRec{}
	s := Memcached().(*memcachedService)
	s.SetChannel(rec)
	s.Handle(context.Background(), &zzCutConn{data: stream, cut: cut, cut2: cut2})
	got := zzFieldList(rec.evs, "memcached-command", "memcached.command")
	zzAssert(len(got) == 2, "each complete command produces exactly one event, however the stream is segmented")
	if len(got) == 2 {
		zzAssert(got[0] == c1 && got[1] == c2, "the events carry the commands sent, in order")
	}
}

// C01+C09/bytes-memcached: any N bytes over TCP followed by the client going away.
func zzH_C09_bytes_memcached() {
	n := zzLen(0, zzParam("N", 3))
	data := zzBytes(n)
	s := Memcached().(*memcachedService)
	s.SetChannel(&zzEvRec{})
	base := zzLive()
	zzUnwindIn("memcached", 4*n+8, true)
	zzDidPanic(func() { s.Handle(context.Background(), &zzCutConn{data: data, cut: n}) })
	zzUnwindIn("", 0, false)
	zzQuiesce()
	zzAssert(zzLive() == base, "no goroutine created on the connection's behalf outlives the handler")
}
