//go:build verif

package ftp

import (
	"context"
	"io"
	"net"
	"os"
	"path/filepath"
	"time"

	"github.com/honeytrap/honeytrap/services/filesystem"

	"github.com/honeytrap/honeytrap/event"
)

type zzAConn struct {
	zzSConn
	remote net.Addr
}

func (c *zzAConn) RemoteAddr() net.Addr { return c.remote }

type zzFRec struct{ evs []event.Event }

func (r *zzFRec) Send(e event.Event) { r.evs = append(r.evs, e) }

var _ = time.Second

// C03+C09/ftp-sessions: N sequential sessions from different client addresses on ONE
// service instance, each sending one command and disconnecting. Every command event
// must carry the address of the session that sent the command, and after each Handle
// has returned no goroutine created on the connection's behalf may be left.
func zzH_C03_ftpsessions() {
	rec := &zzFRec{}
	s := &ftpService{server: NewServer(&ServerOpts{Auth: &User{users: map[string]string{}}}), driver: &zzDriver{}, recv: make(chan string)}
	s.SetChannel(rec)
	n := zzLen(1, zzParam("N", 2))
	cmds := []string{"USER alice", "USER bob", "NOOP"}
	type sess struct {
		ip  string
		cmd string
	}
	var sessions []sess
	for i := 0; i < n; i++ {
		cmd := cmds[zzLen(0, len(cmds)-1)]
		ip := net.IPv4(10, 9, 9, byte(10+i))
		conn := &zzAConn{zzSConn: zzSConn{data: []byte(cmd + "\r\n"), err: io.EOF}, remote: &net.TCPAddr{IP: ip, Port: 40000 + i}}
		s.Handle(context.Background(), conn)
		zzQuiesce()
		sessions = append(sessions, sess{ip.String(), cmd})
		zzAssert(zzLive() == 0, "when a connection's handler has returned, no goroutine created on its behalf is left behind")
	}
	zzAssert(len(rec.evs) == n, "every command is reported exactly once")
	for _, ev := range rec.evs {
		m := event.ToMap(ev)
		c, _ := m["ftp.command"].(string)
		src, _ := m["source-ip"].(string)
		ok := false
		for _, se := range sessions {
			if se.cmd == c && se.ip == src {
				ok = true
			}
		}
		zzAssert(ok, "a command event carries the address of the connection that sent the command")
	}
}

func zzStubSessionID() string { return "sessionsessionsessio" }

// C03/ftp-cwd: the working directory of one session does not leak into the next one.
func zzH_C03_ftpcwd() {
	rec := &zzFRec{}
	zzFsRoot = "/srv/ftp/root"
	zzFsPaths = nil
	zzLstatMode = 2 // every path is an existing directory
	dir := "d" + zzString(1)
	zzAssume(zzAnd(dir[1] >= 'a', dir[1] <= 'z'))
	base := "/srv"
	if !zzSymbolic() {
		tmp, _ := os.MkdirTemp("", "zzc03")
		defer os.RemoveAll(tmp)
		base = tmp
		os.MkdirAll(filepath.Join(tmp, "ftp/root", dir), 0o755)
	}
	h, err := filesystem.New(base, "ftp", "root")
	zzAssume(err == nil)
	s := &ftpService{server: NewServer(&ServerOpts{Auth: &User{users: map[string]string{"u": "p"}}}), driver: NewFileDriver(h), recv: make(chan string)}
	s.SetChannel(rec)
	a := &zzAConn{zzSConn: zzSConn{data: []byte("USER u\r\nPASS p\r\nCWD " + dir + "\r\nPWD\r\n"), err: io.EOF}, remote: &net.TCPAddr{IP: net.IPv4(10, 9, 9, 1), Port: 40001}}
	s.Handle(context.Background(), a)
	zzQuiesce()
	b := &zzAConn{zzSConn: zzSConn{data: []byte("USER u\r\nPASS p\r\nPWD\r\n"), err: io.EOF}, remote: &net.TCPAddr{IP: net.IPv4(10, 9, 9, 2), Port: 40002}}
	s.Handle(context.Background(), b)
	zzQuiesce()
	outA, outB := string(a.out), string(b.out)
	zzAssert(zzContains(outA, "257 /"+dir+"\r\n"), "the session that changed directory sees its new working directory")
	zzAssert(zzContains(outB, "257 /\r\n"), "a new session starts in the root directory whatever earlier sessions did")
}

func zzContains(s, sub string) bool {
	for i := 0; i+len(sub) <= len(s); i++ {
		if s[i:i+len(sub)] == sub {
			return true
		}
	}
	return false
}
