#!/usr/bin/env python3
"""Regenerates /verif/MANIFEST.json from tools/claims.json (one entry per claimed property)."""
import json, os
V = '/verif'
props = [json.loads(l) for l in open(f'{V}/properties.jsonl')]
claims = json.load(open(f'{V}/tools/claims.json'))
checks, na = [], []
for p in props:
    i = p['id']
    c = claims.get(i)
    if not c or c.get('not_applicable'):
        na.append({"property_id": i, "reason": (c or {}).get('not_applicable', 'check not built yet (work in progress)')})
        continue
    checks.append({
        "property_id": i,
        "quick_cmd": f"./bin/gosx check --prop {i} --tier quick",
        "thorough_cmd": f"./bin/gosx check --prop {i} --tier thorough",
        "evidence_file": f"/verif/evidence/{i}.json",
        "replay_cmd_template": "sh {path}/run.sh",
        "engine": "gosx",
        "level_claimed": {"category": "other", "text": c['text'], "design_ref": c.get('design_ref', 'DESIGN.md §5 ' + i)},
        "level_note": c['note'],
        "technique": c.get('technique', "bounded symbolic execution of the real go/ssa (gosx) + SMT (z3/cvc5): solver verdict over all values within stated bounds; counterexamples replayed natively"),
    })
m = {
 "version": 1,
 "setup_cmd": "cd /verif/engine && GOFLAGS=-mod=mod GOPROXY=off GOSUMDB=off GOTOOLCHAIN=local go build -o ../bin/gosx ./cmd/gosx",
 "hooks": {"guard": "verif",
           "enable": "no source hooks: harness files (//go:build verif) are injected by overlay (go/packages Overlay for the interpreter, go test -overlay -tags verif for native replay); /repo itself carries only 'fix:' commits",
           "baseline_off_cmd": "cd /repo && GOFLAGS=-mod=mod GOPROXY=off GOSUMDB=off go test -vet=off -count=1 -timeout 25m ./...",
           "source_commits": [], "add_only": True},
 "engines": [{"name": "gosx", "path": "/verif/engine", "serves_properties": [c['property_id'] for c in checks],
              "kind_free_text": "symbolic interpreter over go/ssa of the real code (loaded from /repo's working tree on every run) + SMT portfolio (z3 4.8.12, cvc5 1.0, cvc5 --solve-bv-as-int, z3 5.1) with native replay of counterexamples"}],
 "checks": checks,
 "not_applicable": na,
 "notes": "exit codes of every check: 0 = holds within the stated bounds (KNOWN-FINDING lines possible), 1 = at least one natively reproduced VIOLATION, 2 = inconclusive (solver unknown, budget, unsupported construct, counterexample that did not reproduce). See DESIGN.md.",
}
json.dump(m, open(f'{V}/MANIFEST.json', 'w'), indent=1)
print(len(checks), 'claimed;', len(na), 'not applicable')
