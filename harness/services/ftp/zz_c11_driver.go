//go:build verif

package ftp

import (
	"os"
	"path/filepath"
	"sort"
	"strings"
	"time"

	"github.com/honeytrap/honeytrap/services/filesystem"
)

// ---- recording model of the os calls the FTP driver makes ----

var (
	zzFsRoot    string
	zzFsPaths   []string
	zzLstatMode int // 0: not exist, 1: file, 2: dir
)

type zzFI struct{ dir bool }

func (i zzFI) Name() string       { return "x" }
func (i zzFI) Size() int64        { return 0 }
func (i zzFI) Mode() os.FileMode  { return 0 }
func (i zzFI) ModTime() time.Time { return time.Time{} }
func (i zzFI) IsDir() bool        { return i.dir }
func (i zzFI) Sys() interface{}   { return nil }

func zzRec(p string) { zzFsPaths = append(zzFsPaths, p) }

func zzStubStat(name string) (os.FileInfo, error) {
	if name == zzFsRoot {
		return zzFI{dir: true}, nil
	}
	return zzStubLstat(name)
}
func zzStubLstat(name string) (os.FileInfo, error) {
	zzRec(name)
	switch zzLstatMode {
	case 1:
		return zzFI{dir: false}, nil
	case 2:
		return zzFI{dir: true}, nil
	}
	return nil, os.ErrNotExist
}
func zzStubOpen(name string) (*os.File, error)   { zzRec(name); return nil, os.ErrPermission }
func zzStubCreate(name string) (*os.File, error) { zzRec(name); return nil, os.ErrPermission }
func zzStubOpenFile(name string, flag int, perm os.FileMode) (*os.File, error) {
	zzRec(name)
	return nil, os.ErrPermission
}
func zzStubRemove(name string) error                  { zzRec(name); return nil }
func zzStubMkdir(name string, perm os.FileMode) error { zzRec(name); return nil }
func zzStubRename(a, b string) error                  { zzRec(a); zzRec(b); return nil }

func zzInRoot(p, root string) bool {
	if !(p == root || strings.HasPrefix(p, root+"/")) {
		return false
	}
	n := len(p)
	for i := 0; i+1 < n; i++ {
		if p[i] == '.' && p[i+1] == '.' && (i == 0 || p[i-1] == '/') && (i+2 == n || p[i+2] == '/') {
			return false
		}
	}
	return true
}

// zzSnapshot lists everything outside the FTP root below tmp (native twin only).
func zzSnapshot(tmp, root string) []string {
	var out []string
	filepath.Walk(tmp, func(p string, info os.FileInfo, err error) error {
		if err != nil {
			return nil
		}
		if p == root {
			return filepath.SkipDir
		}
		out = append(out, p)
		return nil
	})
	sort.Strings(out)
	return out
}

// C11/driver-ops: after one arbitrary successful directory change (so the working
// directory is any reachable one), every driver operation with arbitrary path
// arguments hands only paths inside the root to the operating system.
func zzH_C11_driver() {
	base := "/srv"
	var tmp string
	if !zzSymbolic() {
		tmp, _ = os.MkdirTemp("", "zzc11d")
		defer os.RemoveAll(tmp)
		base = filepath.Join(tmp, "srv")
		os.MkdirAll(filepath.Join(base, "ftp/root/a/b"), 0o755)
		os.WriteFile(filepath.Join(base, "ftp/root/a/f"), []byte("x"), 0o644)
		os.WriteFile(filepath.Join(base, "ftp/root/f"), []byte("x"), 0o644)
		os.WriteFile(filepath.Join(base, "outside"), []byte("x"), 0o644)
		os.MkdirAll(filepath.Join(base, "ftp/other"), 0o755)
	}
	zzFsRoot = filepath.Join(base, "ftp/root")
	zzFsPaths = nil
	zzLstatMode = 2
	h, err := filesystem.New(base, "ftp", "root")
	zzAssume(err == nil)
	fs := NewFileDriver(h)
	var before []string
	if !zzSymbolic() {
		before = zzSnapshot(tmp, zzFsRoot)
	}

	// step 1: an arbitrary CWD
	n0 := zzLen(0, zzParam("N0", 3))
	p0 := zzString(n0)
	fs.ChangeDir(p0)
	cwd := fs.CurDir()
	zzAssert(len(cwd) > 0 && cwd[0] == '/', "the working directory reported to the client is rooted")

	// step 2: one operation with arbitrary paths
	op := zzLen(0, 8)
	n1 := zzLen(0, zzParam("N", 4))
	p1 := zzString(n1)
	zzLstatMode = zzLen(0, 2)
	switch op {
	case 0:
		fs.Stat(p1)
	case 1:
		fs.ListDir(p1)
	case 2:
		fs.DeleteDir(p1)
	case 3:
		fs.DeleteFile(p1)
	case 4:
		n2 := zzLen(0, zzParam("N", 4))
		p2 := zzString(n2)
		fs.Rename(p1, p2)
	case 5:
		fs.MakeDir(p1)
	case 6:
		fs.GetFile(p1, 0)
	case 7:
		fs.PutFile(p1, strings.NewReader("data"), zzBool())
	case 8:
		fs.ChangeDir(p1)
		c := fs.CurDir()
		zzAssert(len(c) > 0 && c[0] == '/', "the working directory stays rooted after a second change")
	}
	for _, p := range zzFsPaths {
		zzAssert(zzInRoot(p, zzFsRoot), "every path handed to the operating system lies inside the FTP root")
	}
	if !zzSymbolic() {
		after := zzSnapshot(tmp, zzFsRoot)
		same := len(before) == len(after)
		for i := 0; same && i < len(before); i++ {
			same = before[i] == after[i]
		}
		zzAssert(same, "every path handed to the operating system lies inside the FTP root (native: nothing outside the root was created, removed or renamed)")
	}
}

func filesystemNew() (*filesystem.Htfs, error) { return filesystem.New("/srv", "ftp", "root") }
