#!/bin/bash
# For every seeded change under seeded/: apply it to the tree under test (rebased patch when
# present), run the quick check of its property, record the outcome, undo the change.
# GOSX_REPO / GOSX_VERIF point the run at scratch copies (a git worktree of /repo and a copy
# of /verif) so that it does not disturb other work; by default it uses /repo and /verif.
REPO=${GOSX_REPO:-/repo}; VERIF=${GOSX_VERIF:-/verif}
cd $VERIF
out=seeded/RESULTS.tsv
[ "$1" = "--resume" ] || : > $out
for d in seeded/*/; do
  name=$(basename $d); id=${name%%-*}
  [ -n "$ONLY" ] && ! echo "$name" | grep -qE "$ONLY" && continue
  grep -q "^$name	" $out 2>/dev/null && continue
  patch=$VERIF/$d/patch.rebased.diff; [ -f $patch ] || patch=$VERIF/$d/patch.diff
  [ -f $patch ] || continue
  if ! git -C $REPO apply --check $patch 2>/dev/null; then echo -e "$name\tpatch-does-not-apply-on-the-fixed-tree\t-" >> $out; continue; fi
  git -C $REPO apply $patch
  s=$(date +%s)
  res=$(timeout 1800 $VERIF/bin/gosx check --prop $id --tier quick --no-evidence 2>&1); rc=$?
  e=$(date +%s)
  git -C $REPO checkout -- .
  line=$(echo "$res" | grep -E "harness=" | head -1 | sed 's/^ *//' | cut -c1-160)
  echo -e "$name\trc=$rc\t$((e-s))s\t$line" >> $out
done
cat $out
