//go:build verif

package services

import (
	"context"
	"net"

	"github.com/honeytrap/honeytrap/event"
	"github.com/honeytrap/honeytrap/listener"
)

type zzTRec struct{ evs []event.Event }

func (r *zzTRec) Send(e event.Event) { r.evs = append(r.evs, e) }

func zzTftpSend(s zzUDPService, payload []byte, ip net.IP) [][]byte {
	var replies [][]byte
	conn := &listener.DummyUDPConn{Buffer: payload, Laddr: &net.UDPAddr{IP: net.IPv4(10, 0, 0, 1), Port: 69},
		Raddr: &net.UDPAddr{IP: ip, Port: 40000},
		Fn: func(b []byte, addr *net.UDPAddr) (int, error) {
			replies = append(replies, append([]byte{}, b...))
			return len(b), nil
		}}
	zzDidPanic(func() { s.Handle(context.Background(), conn) })
	return replies
}

// C03/tftp-history: what a client is answered does not depend on what OTHER clients sent
// before. A probe datagram (2..N symbolic bytes) is answered by a fresh service instance
// and by an instance that has already handled H datagrams (symbolic) of other clients:
// same replies, and the probe's events carry the probe's address.
func zzH_C03_tftphistory() {
	n := zzLen(2, zzParam("N", 5))
	probe := zzBytes(n)
	zzAssume(probe[0] == 0)
	ipB := net.IPv4(10, 7, 7, 7)
	fresh := TFTP().(*tftpService)
	fresh.SetChannel(&zzTRec{})
	want := zzTftpSend(fresh, append([]byte{}, probe...), ipB)

	rec := &zzTRec{}
	s := TFTP().(*tftpService)
	s.SetChannel(rec)
	h := zzLen(1, zzParam("H", 1))
	for i := 0; i < h; i++ {
		m := zzLen(2, zzParam("N", 5))
		hist := zzBytes(m)
		zzAssume(hist[0] == 0)
		zzTftpSend(s, hist, net.IPv4(10, 9, 9, byte(10+i)))
	}
	rec.evs = nil
	got := zzTftpSend(s, append([]byte{}, probe...), ipB)
	same := len(got) == len(want)
	for i := 0; same && i < len(want); i++ {
		same = len(got[i]) == len(want[i])
		for k := 0; same && k < len(want[i]); k++ {
			same = zzAnd(same, got[i][k] == want[i][k])
		}
	}
	zzAssert(same, "a client is answered as by a fresh instance, whatever other clients sent before")
	for _, ev := range rec.evs {
		m := event.ToMap(ev)
		zzAssert(m["source-ip"] == "10.7.7.7", "events of the probe carry the probe's own address")
	}
}

// zzUDPHistory: the differential of tftp-history for any datagram service.
func zzUDPHistory(mk func(rec *zzTRec) zzUDPService, draw func() []byte) {
	probe := draw()
	ipB := net.IPv4(10, 7, 7, 7)
	want := zzTftpSend(mk(&zzTRec{}), append([]byte{}, probe...), ipB)
	rec := &zzTRec{}
	s := mk(rec)
	h := zzLen(1, zzParam("H", 1))
	for i := 0; i < h; i++ {
		zzTftpSend(s, draw(), net.IPv4(10, 9, 9, byte(10+i)))
	}
	rec.evs = nil
	got := zzTftpSend(s, append([]byte{}, probe...), ipB)
	same := len(got) == len(want)
	for i := 0; same && i < len(want); i++ {
		same = len(got[i]) == len(want[i])
		for k := 0; same && k < len(want[i]); k++ {
			same = zzAnd(same, got[i][k] == want[i][k])
		}
	}
	zzAssert(same, "a client is answered as by a fresh instance, whatever other clients sent before")
	for _, ev := range rec.evs {
		m := event.ToMap(ev)
		zzAssert(m["source-ip"] == "10.7.7.7", "events of the probe carry the probe's own address")
	}
}

// C03/memcached-history, C03/counterstrike-history: the same for the other rate-limited
// datagram services (memcached: 8-byte frame header, then 1..2 commands from a table with a
// symbolic key byte; counterstrike: 0..N symbolic bytes).
func zzH_C03_memcachedhistory() {
	zzUDPHistory(func(rec *zzTRec) zzUDPService {
		s := Memcached().(*memcachedService)
		s.SetChannel(rec)
		return s
	}, func() []byte {
		cmds := []string{"stats", "flush_all", "get ", "version", "incr ", "x"}
		payload := zzBytes(8)
		nc := zzLen(1, zzParam("CMDS", 2))
		for i := 0; i < nc; i++ {
			k := zzString(1)
			zzAssume(zzAnd(k[0] > 0x20, k[0] < 0x7f))
			payload = append(payload, []byte(cmds[zzLen(0, len(cmds)-1)]+k+"\r\n")...)
		}
		return payload
	})
}

func zzH_C03_cshistory() {
	zzUDPHistory(func(rec *zzTRec) zzUDPService {
		s := CounterStrike().(*counterStrikeService)
		s.SetChannel(rec)
		return s
	}, func() []byte { return zzBytes(zzLen(0, zzParam("N", 5))) })
}
