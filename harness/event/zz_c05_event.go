//go:build verif

package event

import (
	"net"
	"strconv"
)

// reference hex decoder (independent of encoding/hex)
func zzUnhex(c byte) (byte, bool) {
	// branch-free: the reference must not fork the path per digit
	isDigit := zzAnd(c >= '0', c <= '9')
	isAF := zzAnd(c >= 'a', c <= 'f')
	v := zzIteInt(isDigit, int(c-'0'), int(c-'a'+10))
	return byte(v), zzOr(isDigit, isAF)
}

// C05/payload: for every byte string, payload-hex decodes to exactly the bytes,
// payload-length equals their count and the textual payload has the same bytes.
func zzH_C05_payload() {
	n := zzLen(0, zzParam("N", 8))
	data := zzBytes(n)
	orig := make([]byte, n)
	copy(orig, data)
	ev := New(Payload(data))
	m := ToMap(ev)
	hx, ok := m["payload-hex"].(string)
	zzAssert(ok, "payload-hex is stored as a string")
	zzAssert(len(hx) == 2*n, "payload-hex has two digits per byte")
	if len(hx) == 2*n {
		good := true
		for i := 0; i < n; i++ {
			h, ok1 := zzUnhex(hx[2*i])
			l, ok2 := zzUnhex(hx[2*i+1])
			good = zzAnd(good, zzAnd(zzAnd(ok1, ok2), h<<4|l == orig[i]))
		}
		zzAssert(good, "payload-hex decodes to exactly the bytes received")
	}
	ln, ok := m["payload-length"].(int)
	zzAssert(ok && ln == n, "payload-length equals the number of bytes received")
	p, ok := m["payload"].(string)
	zzAssert(ok && len(p) == n, "payload holds the same number of bytes")
	if ok && len(p) == n {
		same := true
		for i := 0; i < n; i++ {
			same = zzAnd(same, p[i] == orig[i])
		}
		zzAssert(same, "payload holds exactly the bytes received")
	}
	zzAssert(ev.Get("payload-hex") == hx, "Get returns the stored string")
}

// C05/addr: addresses and ports recorded from a connection equal the connection's.
func zzH_C05_addr() {
	port := int(zzU16())
	b3 := zzU8()
	ip := net.IPv4(192, 168, 7, b3)
	kind := zzLen(0, 3)
	var addr net.Addr
	switch kind {
	case 0:
		addr = &net.TCPAddr{IP: ip, Port: port}
	case 1:
		addr = &net.UDPAddr{IP: ip, Port: port}
	case 2:
		addr = &net.IPAddr{IP: ip}
	case 3:
		addr = &net.UnixAddr{Name: "/tmp/sock", Net: "unix"}
	}
	src := zzBool()
	var ev Event
	ipKey, portKey := "source-ip", "source-port"
	if src {
		ev = New(SourceAddr(addr))
	} else {
		ev = New(DestinationAddr(addr))
		ipKey, portKey = "destination-ip", "destination-port"
	}
	m := ToMap(ev)
	if kind <= 1 {
		s, ok := m[ipKey].(string)
		zzAssert(ok, "the ip of a TCP/UDP address is recorded as a string")
		want := "192.168.7." + strconv.Itoa(int(b3))
		zzAssert(s == want, "the recorded ip equals the connection's")
		p, ok := m[portKey].(int)
		zzAssert(ok && p == port, "the recorded port equals the connection's")
	} else {
		_, has1 := m[ipKey]
		_, has2 := m[portKey]
		zzAssert(!has1 && !has2, "other address kinds record no (wrong) ip or port")
	}
	// the scalar options
	p16 := zzU16()
	ev2 := New(SourcePort(p16), DestinationPort(p16+1), SourceIP(ip), DestinationIP(ip))
	m2 := ToMap(ev2)
	sp, ok1 := m2["source-port"].(uint16)
	dp, ok2 := m2["destination-port"].(uint16)
	zzAssert(ok1 && ok2 && sp == p16 && dp == p16+1, "SourcePort/DestinationPort record the given ports")
	zzAssert(m2["source-ip"] == "192.168.7."+strconv.Itoa(int(b3)), "SourceIP records the textual ip")
}

var zzKeys = []string{"a", "payload-length", "source-port", "k"}

// C05/merge-copy: merging keeps the keys an event already has (whatever the kind of
// their value, including non-string and empty-string values); copying overwrites;
// keys not mentioned are unchanged; every stored key appears in ToMap.
func zzH_C05_mergecopy() {
	// existing values: per key absent / int / string / empty string
	ev := New()
	var had [4]int
	var oldInt [4]int
	for i, k := range zzKeys {
		had[i] = zzLen(0, 3)
		oldInt[i] = int(zzU8())
		switch had[i] {
		case 1:
			ev.Store(k, oldInt[i])
		case 2:
			ev.Store(k, "s"+strconv.Itoa(i))
		case 3:
			ev.Store(k, "")
		}
	}
	data := map[string]interface{}{}
	var inData [4]bool
	var newInt [4]int
	for i, k := range zzKeys {
		inData[i] = zzBool()
		newInt[i] = 1000 + int(zzU8())
		if inData[i] {
			data[k] = newInt[i]
		}
	}
	merge := zzBool()
	if merge {
		MergeFrom(data)(ev)
	} else {
		CopyFrom(data)(ev)
	}
	m := ToMap(ev)
	for i, k := range zzKeys {
		v, present := m[k]
		zzAssert(ev.Has(k) == present, "Has agrees with the serialised map")
		overwritten := inData[i] && (!merge || had[i] == 0)
		switch {
		case overwritten:
			iv, ok := v.(int)
			zzAssert(present && ok && iv == newInt[i], "copy overwrites / merge fills a key the event lacks")
		case had[i] == 0:
			zzAssert(!present, "a key mentioned nowhere stays absent")
		case had[i] == 1:
			iv, ok := v.(int)
			zzAssert(present && ok && iv == oldInt[i], "merge keeps an existing non-string value")
		case had[i] == 2:
			sv, ok := v.(string)
			zzAssert(present && ok && sv == "s"+strconv.Itoa(i), "merge keeps an existing string value")
		case had[i] == 3:
			sv, ok := v.(string)
			zzAssert(present && ok && sv == "", "merge keeps an existing empty-string value")
		}
	}
	_, hasDate := m["date"]
	zzAssert(hasDate, "every event carries its date")
}
