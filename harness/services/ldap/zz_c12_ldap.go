//go:build verif

package ldap

import (
	"context"
	"crypto/tls"
	"errors"
	"io"
	"net"
	"time"

	ber "github.com/go-asn1-ber/asn1-ber"
	"github.com/honeytrap/honeytrap/event"
)

type zzLConn struct {
	in     []byte
	pos    int
	out    [][]byte
	remote net.Addr
	local  net.Addr
}

func (c *zzLConn) Read(b []byte) (int, error) {
	if c.pos >= len(c.in) {
		return 0, io.EOF
	}
	n := copy(b, c.in[c.pos:])
	c.pos += n
	return n, nil
}
func (c *zzLConn) Write(b []byte) (int, error) {
	cp := make([]byte, len(b))
	copy(cp, b)
	c.out = append(c.out, cp)
	return len(b), nil
}
func (c *zzLConn) Close() error                       { return nil }
func (c *zzLConn) LocalAddr() net.Addr                { return c.local }
func (c *zzLConn) RemoteAddr() net.Addr               { return c.remote }
func (c *zzLConn) SetDeadline(t time.Time) error      { return nil }
func (c *zzLConn) SetReadDeadline(t time.Time) error  { return nil }
func (c *zzLConn) SetWriteDeadline(t time.Time) error { return nil }

type zzLRec struct{ evs []event.Event }

func (r *zzLRec) Send(e event.Event) { r.evs = append(r.evs, e) }

func zzEnvelope(id int64) *ber.Packet {
	p := ber.Encode(ber.ClassUniversal, ber.TypeConstructed, ber.TagSequence, nil, "LDAP Request")
	p.AppendChild(ber.NewInteger(ber.ClassUniversal, ber.TypePrimitive, ber.TagInteger, id, "MessageID"))
	return p
}

func zzBindReq(id int64, dn, pw string) []byte {
	p := zzEnvelope(id)
	b := ber.Encode(ber.ClassApplication, ber.TypeConstructed, AppBindRequest, nil, "Bind Request")
	b.AppendChild(ber.NewInteger(ber.ClassUniversal, ber.TypePrimitive, ber.TagInteger, int64(3), "Version"))
	b.AppendChild(ber.NewString(ber.ClassUniversal, ber.TypePrimitive, ber.TagOctetString, dn, "User Name"))
	b.AppendChild(ber.NewString(ber.ClassContext, ber.TypePrimitive, 0, pw, "Password"))
	p.AppendChild(b)
	return p.Bytes()
}

func zzGatedReq(id int64, opcode int) []byte {
	p := zzEnvelope(id)
	var op *ber.Packet
	if opcode == AppDelRequest {
		op = ber.NewString(ber.ClassApplication, ber.TypePrimitive, ber.Tag(opcode), "cn=x,dc=y", "Del Request")
	} else {
		op = ber.Encode(ber.ClassApplication, ber.TypeConstructed, ber.Tag(opcode), nil, "Request")
		op.AppendChild(ber.NewString(ber.ClassUniversal, ber.TypePrimitive, ber.TagOctetString, "cn=x,dc=y", "DN"))
	}
	p.AppendChild(op)
	return p.Bytes()
}

// result code of a reply: SEQUENCE { msgid, [APPLICATION n] { ENUMERATED code, ... } }
func zzResultCode(reply []byte) (id int64, code int64, ok bool) {
	p := ber.DecodePacket(reply)
	if p == nil || len(p.Children) < 2 || len(p.Children[1].Children) < 1 {
		return 0, 0, false
	}
	i, ok1 := p.Children[0].Value.(int64)
	c, ok2 := p.Children[1].Children[0].Value.(int64)
	return i, c, ok1 && ok2
}

var zzLCreds = [][]string{{}, {"root:root"}, {"root:root", "admin:toor"}, {"guest:"}, {"wxyz"}, {"*", "root:root"}}
var zzGated = []int{AppModifyRequest, AppAddRequest, AppDelRequest, AppModifyDNRequest, AppCompareRequest}
var zzDnForms = []struct{ pre, suf string }{{"", ""}, {"cn=", ""}, {"cn=", ",dc=example,dc=org"}, {"sn=", ",dc=x"}}

// C12/ldap: one connection through the real Handle (real BER decoding): a gated
// operation before any bind, then up to B bind attempts each followed by a gated
// operation. Names and passwords of the attempts are symbolic strings.
func zzH_C12_ldap() {
	rec := &zzLRec{}
	s := &ldapService{Server: Server{Handlers: make([]requestHandler, 0, 4), Credentials: zzLCreds[zzLen(0, zzParam("CREDS", len(zzLCreds))-1)],
		DSE: &DSE{SupportedLDAPVersion: []string{"2", "3"}}}}
	s.setHandlers()
	s.SetChannel(rec)

	type step struct {
		bind      bool
		name, pw  string
		form      int
		opcode    int
		wantLogin bool // logged in after this step
	}
	var steps []step
	var stream []byte
	logged := false
	id := int64(1)
	gate := func() {
		op := zzGated[zzLen(0, len(zzGated)-1)]
		stream = append(stream, zzGatedReq(id, op)...)
		steps = append(steps, step{opcode: op, wantLogin: logged})
		id++
	}
	gate()
	nb := zzLen(1, zzParam("B", 2))
	for i := 0; i < nb; i++ {
		name := zzString(zzLen(0, 1) * 4) // "" or 4 symbolic bytes (may equal "root")
		pw := zzString(zzLen(0, 1) * 4)
		for j := 0; j < len(name); j++ {
			zzAssume(zzAnd(name[j] != ',', name[j] != ':'))
		}
		if len(name) > 2 {
			// the name proper is not itself of the form "cn=..." (the harness adds the attribute prefix)
			zzAssume(name[2] != '=')
		}
		form := zzLen(0, len(zzDnForms)-1)
		dn := zzDnForms[form].pre + name + zzDnForms[form].suf
		if name == "" {
			dn = "" // anonymous
		}
		stream = append(stream, zzBindReq(id, dn, pw)...)
		inSet := false
		for _, c := range s.Credentials {
			inSet = zzOr(inSet, c == name+":"+pw)
		}
		if dn == "" && pw == "" {
			logged = false // anonymous bind: succeeds, but the connection is not authenticated
		} else if inSet {
			logged = true
		}
		steps = append(steps, step{bind: true, name: name, pw: pw, form: form, wantLogin: logged})
		id++
		gate()
	}
	conn := &zzLConn{in: stream, remote: &net.TCPAddr{IP: net.IPv4(10, 9, 9, 9), Port: 40000}, local: &net.TCPAddr{IP: net.IPv4(10, 0, 0, 1), Port: 389}}
	s.Handle(context.Background(), conn)

	zzAssert(len(conn.out) == len(steps), "every request is answered once")
	if len(conn.out) != len(steps) {
		return
	}
	// note: `logged` is sticky across failed binds (a failed attempt does not log out)
	for i, st := range steps {
		rid, code, ok := zzResultCode(conn.out[i])
		zzAssert(ok && rid == int64(i+1), "replies carry the message id of their request, in order")
		if !ok {
			continue
		}
		if st.bind {
			anonymous := st.name == "" && st.pw == ""
			inSet := false
			for _, c := range s.Credentials {
				inSet = zzOr(inSet, c == st.name+":"+st.pw)
			}
			zzAssert((code == ResSuccess) == zzOr(anonymous, inSet), "a bind succeeds exactly for a configured name/password pair (or anonymously)")
		} else {
			if st.wantLogin {
				zzAssert(code == ResSuccess, "gated operations are accepted after a successful login on the connection")
			} else {
				zzAssert(code == ResUnwillingToPerform, "add/modify/delete/rename/compare are refused until a login has succeeded on the connection")
			}
		}
	}
	// every bind attempt produced an event with the name as evaluated and the password presented
	k := 0
	for _, ev := range rec.evs {
		m := event.ToMap(ev)
		if m["ldap.request-type"] != "bind" {
			continue
		}
		for k < len(steps) && !steps[k].bind {
			k++
		}
		if k >= len(steps) {
			zzAssert(false, "no more bind events than bind attempts")
			break
		}
		zzAssert(m["ldap.username"] == steps[k].name, "the bind event carries the user name as the service evaluated it")
		zzAssert(m["ldap.password"] == steps[k].pw, "the bind event carries the password presented")
		k++
	}
	nbind := 0
	for _, ev := range rec.evs {
		if event.ToMap(ev)["ldap.request-type"] == "bind" {
			nbind++
		}
	}
	zzAssert(nbind == nb, "every bind attempt produces exactly one authentication event")
}

var zzTLSStarted int

// model of (*Conn).StartTLS: records that the server began a TLS handshake on the connection
func zzStubStartTLS(c *Conn, config *tls.Config) error {
	zzTLSStarted++
	return errors.New("zz: tls handshake not modelled")
}

// a connection whose writes fail (the client is already gone)
type zzDeadConn struct{ zzLConn }

func (c *zzDeadConn) Write(b []byte) (int, error) { return 0, errors.New("write: broken pipe") }

func zzStartTLSReq(id int64) []byte {
	p := zzEnvelope(id)
	ext := ber.Encode(ber.ClassApplication, ber.TypeConstructed, AppExtendedRequest, nil, "Extended Request")
	ext.AppendChild(ber.NewString(ber.ClassContext, ber.TypePrimitive, 0, "1.3.6.1.4.1.1466.20037", "StartTLS OID"))
	p.AppendChild(ext)
	return p.Bytes()
}

// C03/ldap-sequential: an earlier session (which binds successfully and then just
// drops the connection, or unbinds, or never binds) must not influence what a later
// session from another address gets on the same service instance.
func zzH_C03_ldapseq() {
	rec := &zzLRec{}
	s := &ldapService{Server: Server{Handlers: make([]requestHandler, 0, 4), Credentials: []string{"root:root"},
		DSE: &DSE{SupportedLDAPVersion: []string{"2", "3"}}}}
	s.setHandlers()
	s.SetChannel(rec)
	s.tlsConfig = &tls.Config{}
	zzTLSStarted = 0
	nEarlier := zzLen(0, zzParam("N", 2))
	for i := 0; i < nEarlier; i++ {
		var stream []byte
		kind := zzLen(0, 3)
		if kind == 3 {
			// StartTLS request from a client that disappears before the reply can be written
			dead := &zzDeadConn{zzLConn{in: zzStartTLSReq(1), remote: &net.TCPAddr{IP: net.IPv4(10, 9, 9, byte(10+i)), Port: 40000}, local: &net.TCPAddr{IP: net.IPv4(10, 0, 0, 1), Port: 389}}}
			s.Handle(context.Background(), dead)
			continue
		}
		switch kind {
		case 0: // successful bind, then the client just goes away
			stream = zzBindReq(1, "cn=root", "root")
		case 1: // successful bind, a gated op, then unbind
			stream = append(zzBindReq(1, "cn=root", "root"), zzGatedReq(2, AppAddRequest)...)
			u := zzEnvelope(3)
			u.AppendChild(ber.Encode(ber.ClassApplication, ber.TypePrimitive, AppUnbindRequest, nil, "Unbind"))
			stream = append(stream, u.Bytes()...)
		case 2: // failed bind
			stream = zzBindReq(1, "cn=root", zzString(4))
		}
		a := &zzLConn{in: stream, remote: &net.TCPAddr{IP: net.IPv4(10, 9, 9, byte(10+i)), Port: 40000}, local: &net.TCPAddr{IP: net.IPv4(10, 0, 0, 1), Port: 389}}
		s.Handle(context.Background(), a)
	}
	rec.evs = nil
	zzTLSStarted = 0
	op := zzGated[zzLen(0, len(zzGated)-1)]
	b := &zzLConn{in: zzGatedReq(1, op), remote: &net.TCPAddr{IP: net.IPv4(10, 7, 7, 7), Port: 41000}, local: &net.TCPAddr{IP: net.IPv4(10, 0, 0, 1), Port: 389}}
	s.Handle(context.Background(), b)
	zzAssert(zzTLSStarted == 0, "the server does not start a TLS handshake the probe session never asked for")
	zzAssert(len(b.out) == 1, "the probe session gets exactly one reply")
	if len(b.out) == 1 {
		_, code, ok := zzResultCode(b.out[0])
		zzAssert(ok && code == ResUnwillingToPerform, "login state of earlier sessions does not leak: an unauthenticated session is refused gated operations")
	}
	for _, ev := range rec.evs {
		m := event.ToMap(ev)
		zzAssert(m["source-ip"] == "10.7.7.7", "events of the probe session carry the probe's own address")
	}
}
