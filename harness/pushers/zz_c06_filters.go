//go:build verif

package pushers

import (
	"github.com/honeytrap/honeytrap/event"
)

type zzRec struct {
	name string
	evs  []event.Event
}

func (r *zzRec) Send(e event.Event) { r.evs = append(r.evs, e) }

type zzBus struct{ subs []Channel }

func (b *zzBus) Subscribe(c Channel) { b.subs = append(b.subs, c) }
func (b *zzBus) Send(e event.Event) {
	for _, s := range b.subs {
		s.Send(e)
	}
}

type zzFilterSpec struct {
	channels   []int
	categories []string
	services   []string
}

// expression alphabet: literal with anchors, alternation, match-all, empty-only, unanchored literal
var zzExprs = []string{".*", "^ssh$", "^ssh$|^ftp$", "^$", "ft"}

// reference matcher for the alphabet above (the native twin runs the real regexp package;
// under the interpreter regexp.MustCompile/MatchString are executed as real code too)
func zzRefMatch(expr, val string) bool {
	switch expr {
	case "^ssh$":
		return val == "ssh"
	case "^ssh$|^ftp$":
		return val == "ssh" || val == "ftp"
	case ".*":
		return true
	case "^$":
		return val == ""
	case "ft":
		for i := 0; i+1 < len(val); i++ {
			if val[i] == 'f' && val[i+1] == 't' {
				return true
			}
		}
		return false
	}
	return false
}

func zzAnyMatch(exprs []string, val string) bool {
	if len(exprs) == 0 {
		return true // an absent list admits everything
	}
	for _, x := range exprs {
		if zzRefMatch(x, val) {
			return true
		}
	}
	return false
}

var zzFieldVals = []string{"ssh", "ftp", "sftp", ""}

// C06/filter-logic: F filters over C channels, wired the way Run wires them
// (token channel, then category filter, then service filter, subscribed in filter order),
// E events whose category/service are a table string, missing, or a non-string value.
func zzH_C06_filters() {
	nch := zzLen(1, zzParam("C", 2))
	chans := make([]*zzRec, nch)
	for i := range chans {
		chans[i] = &zzRec{name: string(rune('a' + i))}
	}
	nf := zzLen(zzParam("FMIN", 0), zzParam("F", 2))
	specs := make([]zzFilterSpec, nf)
	bus := &zzBus{}
	token := "tok-123"
	for f := 0; f < nf; f++ {
		sp := &specs[f]
		for c := 0; c < nch; c++ {
			if zzLen(0, 1) == 1 {
				sp.channels = append(sp.channels, c)
			}
		}
		alpha := zzParam("ALPHA", len(zzExprs))
		for k, n := 0, zzLen(0, zzParam("NCAT", 1)); k < n; k++ {
			sp.categories = append(sp.categories, zzExprs[zzLen(0, alpha-1)])
		}
		for k, n := 0, zzLen(0, zzParam("NSVC", 1)); k < n; k++ {
			sp.services = append(sp.services, zzExprs[zzLen(0, alpha-1)])
		}
		for _, ci := range sp.channels {
			var channel Channel = chans[ci]
			channel = TokenChannel(channel, token)
			if len(sp.categories) != 0 {
				channel = FilterChannel(channel, RegexFilterFunc("category", sp.categories))
			}
			if len(sp.services) != 0 {
				channel = FilterChannel(channel, RegexFilterFunc("service", sp.services))
			}
			bus.Subscribe(channel)
		}
	}
	ne := zzLen(1, zzParam("E", 1))
	type evSpec struct{ cat, svc string }
	var sent []evSpec
	for i := 0; i < ne; i++ {
		var opts []event.Option
		es := evSpec{}
		switch k := zzLen(0, len(zzFieldVals)+1); {
		case k < len(zzFieldVals):
			es.cat = zzFieldVals[k]
			opts = append(opts, event.Category(es.cat))
		case k == len(zzFieldVals): // missing
		default: // non-string value
			opts = append(opts, event.Custom("category", 42))
		}
		switch k := zzLen(0, len(zzFieldVals)); {
		case k < len(zzFieldVals):
			es.svc = zzFieldVals[k]
			opts = append(opts, event.Service(es.svc))
		default:
		}
		switch zzLen(0, 2) { // the event may already carry a "token" key (relayed / client-controlled data)
		case 1:
			opts = append(opts, event.Custom("token", "forged"))
		case 2:
			opts = append(opts, event.Custom("token", 7))
		}
		opts = append(opts, event.Custom("seq", i))
		sent = append(sent, es)
		bus.Send(event.New(opts...))
	}
	// reference: per channel, in sending order, one delivery per filter naming it and admitting the event
	for ci, ch := range chans {
		var want []int
		for i, es := range sent {
			for _, sp := range specs {
				named := false
				for _, c := range sp.channels {
					if c == ci {
						named = true
					}
				}
				if named && zzAnyMatch(sp.categories, es.cat) && zzAnyMatch(sp.services, es.svc) {
					want = append(want, i)
				}
			}
		}
		ok := len(ch.evs) == len(want)
		for i := 0; ok && i < len(want); i++ {
			m := event.ToMap(ch.evs[i])
			ok = m["seq"] == want[i]
		}
		zzAssert(ok, "each channel receives, in sending order, one delivery per filter that names it and admits the event, and nothing else")
		for _, ev := range ch.evs {
			zzAssert(ev.Get("token") == token, "delivered events carry the sensor token")
		}
	}
}
