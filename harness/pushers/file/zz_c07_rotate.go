//go:build verif

package fschannel

import (
	"bytes"
	"encoding/json"
	"io"
	"os"
	"path/filepath"
	"sort"
	"strings"
	"time"
)

// ---- in-memory model of the file system calls rotateFile makes ----
// (under the interpreter these replace os.OpenFile / os.Rename / os.Stat and the
// (*os.File) methods; the native twin of the harness uses a real temporary directory)

type zzInode struct {
	prev   int64  // bytes already in the file before the harness started (content: complete lines)
	data   []byte // bytes appended during the harness
	closed bool
}

type zzFS struct {
	names     map[string]*zzInode
	open      map[*os.File]*zzInode
	off       map[*os.File]int64 // write position of every open handle (no O_APPEND)
	clobbered bool               // a write landed before the end of existing content
	rotated   []*zzInode         // in rename order
	overwrote bool
	failOpen  bool
}

var zzfs *zzFS

type zzFInfo struct{ size int64 }

func (i zzFInfo) Name() string       { return "f" }
func (i zzFInfo) Size() int64        { return i.size }
func (i zzFInfo) Mode() os.FileMode  { return 0o600 }
func (i zzFInfo) ModTime() time.Time { return time.Time{} }
func (i zzFInfo) IsDir() bool        { return false }
func (i zzFInfo) Sys() interface{}   { return nil }

func zzStubOpenFile(name string, flag int, perm os.FileMode) (*os.File, error) {
	if zzfs.failOpen {
		return nil, os.ErrPermission
	}
	ino := zzfs.names[name]
	if ino == nil {
		ino = &zzInode{}
		zzfs.names[name] = ino
	}
	f := new(os.File)
	zzfs.open[f] = ino
	if zzfs.off == nil {
		zzfs.off = map[*os.File]int64{}
	}
	zzfs.off[f] = 0
	return f, nil
}
func zzStubStat(name string) (os.FileInfo, error) {
	ino := zzfs.names[name]
	if ino == nil {
		return nil, os.ErrNotExist
	}
	return zzFInfo{ino.prev + int64(len(ino.data))}, nil
}
func zzStubRename(oldp, newp string) error {
	ino := zzfs.names[oldp]
	if ino == nil {
		return os.ErrNotExist
	}
	if zzfs.names[newp] != nil {
		zzfs.overwrote = true
	}
	zzfs.names[newp] = ino
	delete(zzfs.names, oldp)
	zzfs.rotated = append(zzfs.rotated, ino)
	return nil
}
func zzStubFileWrite(f *os.File, b []byte) (int, error) {
	ino := zzfs.open[f]
	if ino == nil || ino.closed && false {
		return 0, os.ErrClosed
	}
	// the file is opened without O_APPEND: the bytes go to the handle's position
	if zzfs.off[f] != ino.prev+int64(len(ino.data)) {
		zzfs.clobbered = true
	}
	ino.data = append(ino.data, b...)
	zzfs.off[f] = ino.prev + int64(len(ino.data))
	return len(b), nil
}
func zzStubFileSeek(f *os.File, off int64, whence int) (int64, error) {
	ino := zzfs.open[f]
	size := ino.prev + int64(len(ino.data))
	switch whence {
	case 0:
		zzfs.off[f] = off
	case 1:
		zzfs.off[f] += off
	default:
		zzfs.off[f] = size + off
	}
	return zzfs.off[f], nil
}

// Stat on an open handle succeeds even when the name is gone (POSIX)
func zzStubFileStat(f *os.File) (os.FileInfo, error) {
	ino := zzfs.open[f]
	if ino == nil {
		return nil, os.ErrClosed
	}
	return zzFInfo{ino.prev + int64(len(ino.data))}, nil
}
func zzStubFileSync(f *os.File) error  { return nil }
func zzStubFileClose(f *os.File) error { return nil }

// ---- the oracle, shared by the symbolic run and its native twin ----

type zzFileView struct {
	prev int64
	data []byte
}

// zzCheckFiles: files in rotation order (oldest first, active file last).
func zzCheckFiles(files []zzFileView, lines [][]byte, maxSize int64) {
	// 1. every line of the batch appears exactly once, intact, as one line of some file
	var got [][]byte
	for _, f := range files {
		d := f.data
		for len(d) > 0 {
			i := bytes.IndexByte(d, '\n')
			if i < 0 {
				got = append(got, d)
				break
			}
			got = append(got, d[:i])
			d = d[i+1:]
		}
	}
	ok := len(got) == len(lines)
	for i := 0; ok && i < len(lines); i++ {
		ok = bytes.Equal(got[i], lines[i])
	}
	zzAssertMsg(ok, "every line written appears exactly once, complete and in order, in the log file or a rotated predecessor", zzDescribe(got, lines))
	// 2. a file exceeds the maximum size only if it consists of one single line
	for _, f := range files {
		size := f.prev + int64(len(f.data))
		if size > maxSize {
			single := f.prev == 0 && bytes.Count(bytes.TrimSuffix(f.data, []byte("\n")), []byte("\n")) == 0
			zzAssert(single, "a file exceeds the maximum size only if it consists of a single line that is itself larger")
		}
	}
}

func zzDescribe(got, want [][]byte) string {
	switch {
	case len(got) < len(want):
		return "a line is missing or two lines were glued together"
	case len(got) > len(want):
		return "a line was cut in two"
	}
	return "a line was corrupted (bytes dropped)"
}

// C07/write-step: one Write of a batch of complete lines from an arbitrary state of
// the active file (position anywhere relative to the size limit).
func zzH_C07_write() {
	maxSize := int64(1024)
	nl := zzLen(1, zzParam("LINES", 3))
	var lines [][]byte
	var p []byte
	for i := 0; i < nl; i++ {
		l := zzLen(1, zzParam("LEN", 3))
		line := bytes.Repeat([]byte{byte('a' + i)}, l)
		lines = append(lines, line)
		p = append(p, line...)
		p = append(p, '\n')
	}
	// position of the active file before the write: anywhere that makes rotation possible or not
	pos := zzI64()
	zzAssume(pos >= maxSize-int64(len(p))-2 && pos <= maxSize-1)
	zzAssume(pos >= 0)

	path := "/var/log/honeytrap.log"
	var tmp string
	if zzSymbolic() {
		zzfs = &zzFS{names: map[string]*zzInode{}, open: map[*os.File]*zzInode{}}
		zzfs.names[path] = &zzInode{prev: pos}
	} else {
		tmp, _ = os.MkdirTemp("", "zzc07")
		defer os.RemoveAll(tmp)
		path = filepath.Join(tmp, "honeytrap.log")
		prevc := bytes.Repeat([]byte{'x'}, int(pos))
		if pos > 0 {
			prevc[pos-1] = '\n'
		}
		os.WriteFile(path, prevc, 0o600)
	}
	rf, err := OpenRotateFile(path, 0o600, maxSize)
	zzAssume(err == nil)
	n, err := rf.Write(p)
	zzAssert(err == nil, "Write of a batch succeeds")
	zzAssert(n == len(p), "Write reports the whole batch as written")

	var files []zzFileView
	if zzSymbolic() {
		zzAssert(!zzfs.overwrote, "rotation never overwrites an earlier rotated file")
		zzAssert(!zzfs.clobbered, "events already in the log are never overwritten (writes go to the end of the file)")
		for _, ino := range zzfs.rotated {
			files = append(files, zzFileView{ino.prev, ino.data})
		}
		act := zzfs.names[path]
		zzAssert(act != nil, "the log file exists after the write")
		if act != nil {
			files = append(files, zzFileView{act.prev, act.data})
			zzAssert(rf.pos == act.prev+int64(len(act.data)), "the recorded position equals the size of the active file")
		}
	} else {
		files = zzNativeFiles(tmp, path, pos)
	}
	zzCheckFiles(files, lines, maxSize)
}

// zzNativeFiles reads the rotated files (sorted by name = time order) and the active file.
func zzNativeFiles(dir, path string, pos int64) []zzFileView {
	ents, _ := os.ReadDir(dir)
	var names []string
	for _, e := range ents {
		if strings.HasPrefix(e.Name(), filepath.Base(path)+".") {
			names = append(names, e.Name())
		}
	}
	sort.Strings(names)
	names = append(names, filepath.Base(path))
	var out []zzFileView
	first := true
	for _, n := range names {
		b, err := os.ReadFile(filepath.Join(dir, n))
		if err != nil {
			continue
		}
		v := zzFileView{0, b}
		if first && int64(len(b)) >= pos {
			// the oldest file is the one that held the pre-existing content
			intact := true
			for i := int64(0); i < pos; i++ {
				want := byte('x')
				if i == pos-1 {
					want = '\n'
				}
				intact = intact && b[i] == want
			}
			zzAssert(intact, "events already in the log are never overwritten (writes go to the end of the file)")
			v = zzFileView{pos, b[pos:]}
		} else if first && pos > 0 {
			zzAssert(false, "events already in the log are never overwritten (writes go to the end of the file)")
		}
		first = false
		out = append(out, v)
	}
	return out
}

// C07/two-writes: two consecutive writes, each forcing a rotation, with the clock free
// to stay within one second - by one writer instance or by two (restart in between): the
// second rotation must not overwrite the first.
func zzH_C07_twice() {
	maxSize := int64(1024)
	path := "/var/log/honeytrap.log"
	var tmp string
	pos := maxSize - 2
	if zzSymbolic() {
		zzfs = &zzFS{names: map[string]*zzInode{}, open: map[*os.File]*zzInode{}}
		zzfs.names[path] = &zzInode{prev: pos}
	} else {
		tmp, _ = os.MkdirTemp("", "zzc07")
		defer os.RemoveAll(tmp)
		path = filepath.Join(tmp, "honeytrap.log")
		prevc := bytes.Repeat([]byte{'x'}, int(pos))
		prevc[pos-1] = '\n'
		os.WriteFile(path, prevc, 0o600)
	}
	rf, err := OpenRotateFile(path, 0o600, maxSize)
	zzAssume(err == nil)
	// batch 1: "aa\n" + a line that fills the fresh file to the limit; batch 2 rotates again
	b1 := append([]byte("aa\n"), append(bytes.Repeat([]byte{'b'}, int(maxSize)-1), '\n')...)
	b2 := []byte("cc\n")
	_, err = rf.Write(b1)
	zzAssert(err == nil, "first write succeeds")
	if zzBool() {
		// the process (or the channel) is restarted between the two writes: a new writer
		// instance on the same path, possibly still within the same second
		rf.Close()
		rf, err = OpenRotateFile(path, 0o600, maxSize)
		zzAssume(err == nil)
	}
	_, err = rf.Write(b2)
	zzAssert(err == nil, "second write succeeds")
	lines := [][]byte{[]byte("aa"), bytes.Repeat([]byte{'b'}, int(maxSize)-1), []byte("cc")}
	var files []zzFileView
	if zzSymbolic() {
		zzAssert(!zzfs.overwrote, "rotation never overwrites an earlier rotated file")
		for _, ino := range zzfs.rotated {
			files = append(files, zzFileView{ino.prev, ino.data})
		}
		if act := zzfs.names[path]; act != nil {
			files = append(files, zzFileView{act.prev, act.data})
		}
		zzAssert(len(zzfs.names) == len(zzfs.rotated)+1, "every rotated file is still there under its own name")
	} else {
		files = zzNativeFiles(tmp, path, pos)
	}
	zzCheckFiles(files, lines, maxSize)
}

// C07/external-removal: the log file is removed (or renamed away) externally between
// two writes; the second write must land, intact, in a file reachable under the
// configured path, and must not be mistaken for a write that crosses the size limit.
func zzH_C07_removed() {
	maxSize := int64(1024)
	path := "/var/log/honeytrap.log"
	var tmp string
	pos := zzI64()
	zzAssume(pos >= 0 && pos <= maxSize-1)
	renamedAway := zzBool()
	if zzSymbolic() {
		zzfs = &zzFS{names: map[string]*zzInode{}, open: map[*os.File]*zzInode{}}
		zzfs.names[path] = &zzInode{prev: pos}
	} else {
		tmp, _ = os.MkdirTemp("", "zzc07")
		defer os.RemoveAll(tmp)
		path = filepath.Join(tmp, "honeytrap.log")
		prevc := bytes.Repeat([]byte{'x'}, int(pos))
		if pos > 0 {
			prevc[pos-1] = '\n'
		}
		os.WriteFile(path, prevc, 0o600)
	}
	rf, err := OpenRotateFile(path, 0o600, maxSize)
	zzAssume(err == nil)
	// external removal / rename
	if zzSymbolic() {
		if renamedAway {
			zzfs.names["/var/log/elsewhere"] = zzfs.names[path]
		}
		delete(zzfs.names, path)
	} else if renamedAway {
		os.Rename(path, filepath.Join(tmp, "elsewhere"))
	} else {
		os.Remove(path)
	}
	l := zzLen(1, zzParam("LEN", 4))
	line := bytes.Repeat([]byte{'a'}, l)
	p := append(append([]byte{}, line...), '\n')
	n, err := rf.Write(p)
	zzAssert(err == nil && n == len(p), "the write after an external removal succeeds")
	var got []byte
	if zzSymbolic() {
		act := zzfs.names[path]
		zzAssert(act != nil, "the log file exists again under the configured path")
		if act != nil {
			got = act.data
			zzAssert(rf.pos == act.prev+int64(len(act.data)), "the recorded position equals the size of the new file")
		}
		zzAssert(len(zzfs.rotated) == 0, "a fresh file is not rotated for a line that fits")
	} else {
		got, _ = os.ReadFile(path)
		fi, err := os.Stat(path)
		zzAssert(err == nil && rf.pos == fi.Size(), "the recorded position equals the size of the new file")
	}
	zzAssert(bytes.Equal(got, p), "the line written after the removal is intact in the file under the configured path")
}

// ---- C07/write-loop: the channel's batching loop in front of the rotating file ----

// model of (*json.Encoder).Encode for the maps the channel encodes: one line whose length
// and fill byte the event names (the real encoder is reflection-based); written to the
// encoder's own writer
func zzStubEncode(enc *json.Encoder, v interface{}) error {
	m := v.(map[string]interface{})
	n, _ := m["n"].(int)
	c, _ := m["c"].(byte)
	w := zzGetHidden(enc, 0).(io.Writer)
	line := bytes.Repeat([]byte{c}, n)
	line = append(line, '\n')
	_, err := w.Write(line)
	return err
}

type zzLenEvent struct {
	n int
	c byte
}

// C07/write-loop: E events of LEN..LEN+3 bytes each - together more than the 500 KiB batch
// threshold - are sent without pause through the real Send / writeLoop into a rotating file
// whose limit lies just above the threshold. Every event's line appears exactly once and
// complete in the active file or a rotated one.
func zzH_C07_writeloop() {
	maxSize := int64(520000)
	path := "/var/log/honeytrap.log"
	var tmp string
	if zzSymbolic() {
		zzfs = &zzFS{names: map[string]*zzInode{}, open: map[*os.File]*zzInode{}}
	} else {
		tmp, _ = os.MkdirTemp("", "zzc07w")
		defer os.RemoveAll(tmp)
		path = filepath.Join(tmp, "honeytrap.log")
	}
	fb := &FileBackend{FileConfig: FileConfig{MaxSize: maxSize, File: path, Mode: 0o600}, request: make(chan map[string]interface{})}
	done := false
	go func() { fb.writeLoop(); done = true }()
	ln := zzParam("LEN", 20000) + zzLen(0, 3)
	e := zzParam("E", 28)
	var lines [][]byte
	for i := 0; i < e; i++ {
		c := byte('a' + i%26)
		if zzSymbolic() {
			fb.request <- map[string]interface{}{"n": ln, "c": c}
			lines = append(lines, bytes.Repeat([]byte{c}, ln))
		} else {
			// native twin: the real JSON encoder; a payload string of the same size
			fb.request <- map[string]interface{}{"p": string(bytes.Repeat([]byte{c}, ln-8))}
			lines = append(lines, []byte(`{"p":"`+string(bytes.Repeat([]byte{c}, ln-8))+`"}`))
		}
	}
	zzTimers(2) // then an idle second: the loop flushes what is left
	zzQuiesce()
	if !zzSymbolic() {
		time.Sleep(1500 * time.Millisecond)
	}
	close(fb.request)
	zzQuiesce()
	zzAssert(done, "the write loop ends when the channel is closed")
	var files []zzFileView
	if zzSymbolic() {
		for _, ino := range zzfs.rotated {
			files = append(files, zzFileView{ino.prev, ino.data})
		}
		if act := zzfs.names[path]; act != nil {
			files = append(files, zzFileView{act.prev, act.data})
		}
	} else {
		files = zzNativeFiles(tmp, path, 0)
	}
	zzCheckFiles(files, lines, maxSize)
}
