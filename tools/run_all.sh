#!/bin/bash
# runs every claimed check of MANIFEST.json in the given tier, sequentially; prints one line per property
tier=${1:-quick}
cd /verif
for p in $(python3 -c "import json;print(' '.join(c['property_id'] for c in json.load(open('MANIFEST.json'))['checks']))"); do
  s=$(date +%s)
  out=$(timeout ${2:-3600} ./bin/gosx check --prop $p --tier $tier 2>&1); rc=$?
  e=$(date +%s)
  echo "$p rc=$rc $((e-s))s $(echo "$out" | grep -E '^(HOLDS|VIOLATION|INCONCLUSIVE|KNOWN-FINDING)' | head -3 | tr '\n' ' ')"
done
