//go:build verif

package canary

import (
	"github.com/honeytrap/honeytrap/listener/canary/ethernet"
	"github.com/honeytrap/honeytrap/listener/canary/icmp"
	"github.com/honeytrap/honeytrap/listener/canary/ipv4"
	"github.com/honeytrap/honeytrap/listener/canary/tcp"
	"github.com/honeytrap/honeytrap/listener/canary/udp"
)

// zzInside: slice s lies inside buffer b (or is empty).
func zzInside(s, b []byte) bool {
	if len(s) == 0 {
		return true
	}
	return zzAliases(s[:1], b) && zzAliases(s[len(s)-1:], b)
}

// C02/parsers — the header parsers chained exactly as the receive loop chains them
// (ethernet -> ipv4 -> copy of the IP payload -> tcp / udp / icmp), on a frame of
// every length 14..N whose bytes are all symbolic. In the receive loop nothing
// recovers a panic, so every feasible panic here kills the listener.
func zzH_C02_parsers() {
	n := zzLen(14, zzParam("N", 48))
	frame := zzBytes(n)
	// the TCP checksum helper formats both IP addresses as text (to4byte); their
	// value does not influence parsing, so they are fixed to keep the decimal
	// formatting from forking (stated concretisation).
	if n >= 34 {
		zzAssume(frame[26] == 10 && frame[27] == 0 && frame[28] == 0 && frame[29] == 2)
		zzAssume(frame[30] == 10 && frame[31] == 0 && frame[32] == 0 && frame[33] == 1)
	}
	proto := zzLen(0, 3)
	msg := zzPanicMsg(func() {
		eh, err := ethernet.Parse(frame)
		if err != nil {
			return
		}
		zzAssert(zzInside(eh.Payload, frame), "ethernet payload lies inside the frame")
		if eh.Type != EthernetTypeIPv4 {
			return
		}
		iph, err := ipv4.Parse(eh.Payload)
		if err != nil {
			return
		}
		zzAssert(zzInside(iph.Payload, frame), "ipv4 payload lies inside the frame")
		data := make([]byte, len(iph.Payload))
		copy(data, iph.Payload)
		switch proto {
		case 0:
			zzAssume(iph.Protocol == 6)
			hdr, err := tcp.UnmarshalWithChecksum(data, iph.Dst, iph.Src)
			if err == nil || err == tcp.ErrInvalidChecksum {
				zzAssert(zzInside(hdr.Payload, data), "tcp payload lies inside the segment")
				for _, o := range hdr.Options {
					zzAssert(zzInside(o.OptionData, data), "tcp option data lies inside the segment")
				}
			}
		case 1:
			zzAssume(iph.Protocol == 17)
			hdr, err := udp.Unmarshal(data)
			if err == nil {
				zzAssert(zzInside(hdr.Payload, data), "udp payload lies inside the datagram")
				zzAssert(int(hdr.Length) == len(data), "accepted udp datagram has consistent length")
			}
		case 2:
			zzAssume(iph.Protocol == 1)
			icmp.Parse(data)
		default:
			zzAssume(iph.Protocol != 1 && iph.Protocol != 6 && iph.Protocol != 17)
		}
	})
	zzAssertMsg(msg == "", "no header parser panics on any frame", msg)
}
