//go:build verif

package docker

import (
	"bufio"
	"context"
	"encoding/json"
	"io"
	"net"
	"net/http"
	"net/url"
	"time"

	"github.com/honeytrap/honeytrap/event"
	"github.com/rs/xid"
)

type zzDRec struct{ n int }

func (r *zzDRec) Send(e event.Event) { r.n++ }

type zzDConn struct {
	path   string
	served bool
	ip     byte
}

func (c *zzDConn) Read(b []byte) (int, error)  { return 0, io.EOF }
func (c *zzDConn) Write(b []byte) (int, error) { return len(b), nil }
func (c *zzDConn) Close() error                { return nil }
func (c *zzDConn) LocalAddr() net.Addr         { return &net.TCPAddr{IP: net.IPv4(10, 0, 0, 1), Port: 2375} }
func (c *zzDConn) RemoteAddr() net.Addr {
	return &net.TCPAddr{IP: net.IPv4(10, 9, 9, c.ip), Port: 40000}
}
func (c *zzDConn) SetDeadline(t time.Time) error      { return nil }
func (c *zzDConn) SetReadDeadline(t time.Time) error  { return nil }
func (c *zzDConn) SetWriteDeadline(t time.Time) error { return nil }

// the request parser, the JSON encoder and the response writer are library code behind
// reflection; what matters here is which shared objects the HANDLER touches
var zzDConns = map[*bufio.Reader]*zzDConn{}

func zzStubReadRequest(b *bufio.Reader) (*http.Request, error) {
	c := zzDCur
	if c == nil || c.served {
		return nil, io.EOF
	}
	c.served = true
	return &http.Request{Method: "GET", URL: &url.URL{Path: c.path}, Proto: "HTTP/1.1", ProtoMajor: 1, ProtoMinor: 1,
		Header: http.Header{}, Body: http.NoBody, Host: "h"}, nil
}
func zzStubEncode(enc *json.Encoder, v interface{}) error { return nil }
func zzStubRespWrite(r *http.Response, w io.Writer) error { return nil }
func zzStubXid() xid.ID                                   { return xid.ID{1, 2, 3, 4, 5, 6, 7, 8, 9, 10, 11, 12} }

// the connection whose handler calls ReadRequest next (set by the goroutine before Handle;
// the cooperative scheduler switches only at blocking operations, of which there are none
// between the assignment and the call)
var zzDCur *zzDConn

// C01/docker-shared: two connections handled at the same time on one docker service, each
// requesting one of the API routes. No Go map may be touched by both handlers without a
// common lock when one of the accesses is a write (fatal "concurrent map writes").
func zzH_C01_docker() {
	s := Docker().(*dockerService)
	s.SetChannel(&zzDRec{})
	paths := []string{"/info", "/v1.40/info", "/version", "/_ping", "/v1.40/containers/json", "/v1.40/images/json", "/nosuch"}
	p0, p1 := paths[zzLen(0, len(paths)-1)], paths[zzLen(0, len(paths)-1)]
	done := 0
	for i, p := range []string{p0, p1} {
		c := &zzDConn{path: p, ip: byte(1 + i)}
		go func() {
			zzDidPanic(func() {
				for k := 0; k < 2; k++ { // Handle returns after each response; the server calls it once per connection
					zzDCur = c
					s.Handle(context.Background(), c)
				}
			})
			done++
		}()
	}
	zzQuiesce()
	zzAssert(done == 2, "both handlers finish")
}
