//go:build verif

package filesystem

import (
	"os"
	"path/filepath"
	"strings"
	"time"
)

// zzRooted: p is root itself or lies below root, and has no ".." component left.
func zzRooted(p, root string) bool {
	in := p == root || strings.HasPrefix(p, root+"/")
	if !in {
		return false
	}
	return !zzHasDotDot(p)
}

func zzHasDotDot(p string) bool {
	// component-wise scan without allocating (bytes may be symbolic)
	n := len(p)
	for i := 0; i+1 < n; i++ {
		if p[i] == '.' && p[i+1] == '.' {
			startOK := i == 0 || p[i-1] == '/'
			endOK := i+2 == n || p[i+2] == '/'
			if startOK && endOK {
				return true
			}
		}
	}
	return false
}

// zzCwd draws a working directory that satisfies the representation invariant:
// "/" or "/c1[/c2]" with non-empty components free of '/', none of them "." or "..".
func zzCwd(maxComps, maxLen int) string {
	k := zzLen(0, maxComps)
	cwd := "/"
	for i := 0; i < k; i++ {
		l := zzLen(1, maxLen)
		c := zzString(l)
		for j := 0; j < l; j++ {
			zzAssume(c[j] != '/')
		}
		zzAssume(c != "." && c != "..")
		if i > 0 {
			cwd += "/"
		}
		cwd += c
	}
	return cwd
}

// C11/realpath: for every working directory satisfying the invariant and every
// path string (all byte values), RealPath stays inside the root.
func zzH_C11_realpath() {
	root := "/srv/ftp/root"
	f := &Htfs{root: root, cwd: zzCwd(zzParam("COMPS", 2), zzParam("CLEN", 2))}
	n := zzLen(0, zzParam("N", 6))
	path := zzString(n)
	r := f.RealPath(path)
	zzAssert(zzRooted(r, root), "RealPath of any path lies inside the filesystem root")
}

type zzInfo struct{ dir bool }

func (i zzInfo) Name() string       { return "x" }
func (i zzInfo) Size() int64        { return 0 }
func (i zzInfo) Mode() os.FileMode  { return 0 }
func (i zzInfo) ModTime() time.Time { return time.Time{} }
func (i zzInfo) IsDir() bool        { return i.dir }
func (i zzInfo) Sys() interface{}   { return nil }

var zzLstatDir, zzLstatFail bool
var zzLstatPaths []string

// model of os.Lstat: the object exists or not, is a directory or not (harness decides);
// records the path it was asked about.
func zzStubLstat(name string) (os.FileInfo, error) {
	zzLstatPaths = append(zzLstatPaths, name)
	if zzLstatFail {
		return nil, os.ErrNotExist
	}
	return zzInfo{dir: zzLstatDir}, nil
}

// C11/chdir: ChangeDir re-establishes the invariant on the working directory (rooted,
// clean, free of ".."), leaves it untouched on failure, and only inspects paths inside
// the root.
func zzH_C11_chdir() {
	root := "/srv/ftp/root"
	cwd0 := zzCwd(zzParam("COMPS", 2), zzParam("CLEN", 2))
	n := zzLen(0, zzParam("N", 6))
	path := zzString(n)
	zzLstatFail = zzBool()
	zzLstatDir = zzBool()
	zzLstatPaths = nil
	if !zzSymbolic() {
		// native twin: a real directory tree instead of the Lstat model
		tmp, _ := os.MkdirTemp("", "zzc11")
		defer os.RemoveAll(tmp)
		root = filepath.Join(tmp, "srv/ftp/root")
		os.MkdirAll(root, 0o755)
		f0 := &Htfs{root: root, cwd: cwd0}
		if !zzLstatFail {
			t := f0.RealPath(path)
			if strings.HasPrefix(t, root) && !strings.ContainsRune(path, 0) {
				if zzLstatDir {
					os.MkdirAll(t, 0o755)
				} else if t != root {
					os.MkdirAll(filepath.Dir(t), 0o755)
					os.WriteFile(t, nil, 0o644)
				}
			}
		}
	}
	f := &Htfs{root: root, cwd: cwd0}
	err := f.ChangeDir(path)
	for _, p := range zzLstatPaths {
		zzAssert(zzRooted(p, root), "ChangeDir only inspects paths inside the root")
	}
	if err != nil {
		zzAssert(f.cwd == cwd0, "a failed directory change leaves the working directory unchanged")
		return
	}
	c := f.Cwd()
	zzAssert(len(c) > 0 && c[0] == '/', "the working directory reported to the client is rooted")
	zzAssert(!zzHasDotDot(c), "the working directory contains no dot-dot component")
	zzAssert(filepath.Clean(c) == c, "the working directory is clean")
	zzAssert(zzRooted(f.RealPath(""), root), "the new working directory denotes a location inside the root")
	zzAssert(zzRooted(f.RealPath(".."), root), "dot-dot from the new working directory stays inside the root")
}
