//go:build verif

package server

import (
	"errors"
	"io"
	"net"
	"time"

	"github.com/honeytrap/honeytrap/director"
	"github.com/honeytrap/honeytrap/listener"
	"github.com/honeytrap/honeytrap/services"
)

// zzBackend: the backend side of a proxied connection. It answers with `reply` once it
// has received at least `need` bytes; reads block (on a channel) until then.
type zzBackend struct {
	got       []byte
	reply     []byte
	need      int
	ready     chan struct{}
	sent      bool
	closed    bool
	signalled bool
}

func (b *zzBackend) Write(p []byte) (int, error) {
	if b.closed {
		return 0, errors.New("backend: closed")
	}
	b.got = append(b.got, p...)
	if len(b.got) >= b.need && !b.signalled {
		b.signalled = true
		close(b.ready)
	}
	return len(p), nil
}
func (b *zzBackend) Read(p []byte) (int, error) {
	if b.closed {
		return 0, errors.New("backend: use of closed connection")
	}
	<-b.ready
	if b.closed {
		return 0, errors.New("backend: use of closed connection")
	}
	if b.sent {
		return 0, io.EOF
	}
	b.sent = true
	return copy(p, b.reply), nil
}
func (b *zzBackend) Close() error                       { b.closed = true; return nil }
func (b *zzBackend) LocalAddr() net.Addr                { return &net.TCPAddr{IP: net.IPv4(10, 0, 0, 1), Port: 50000} }
func (b *zzBackend) RemoteAddr() net.Addr               { return &net.TCPAddr{IP: net.IPv4(10, 1, 1, 1), Port: 53} }
func (b *zzBackend) SetDeadline(t time.Time) error      { return nil }
func (b *zzBackend) SetReadDeadline(t time.Time) error  { return nil }
func (b *zzBackend) SetWriteDeadline(t time.Time) error { return nil }

type zzDirector struct {
	backend *zzBackend
	dials   int
}

func (d *zzDirector) Dial(c net.Conn) (net.Conn, error) { d.dials++; return d.backend, nil }

var _ director.Director = &zzDirector{}

func zzBytesEq2(a, b []byte) bool {
	if len(a) != len(b) {
		return false
	}
	eq := true
	for i := range a {
		eq = zzAnd(eq, a[i] == b[i])
	}
	return eq
}

// C15/dns-proxy-relay: one datagram (first bytes symbolic, total length from a table that
// includes sizes above 4096) dispatched by the real handle to the dns proxy: the backend
// receives the datagram byte for byte, the client receives the backend's reply byte for
// byte, exactly one backend connection is opened, and the relayed request is reported.
func zzH_C15_dnsproxy() {
	ch := &zzEvCh{}
	sizes := []int{12, 40, 512, 4096, 4097, 6000}
	n := sizes[zzLen(0, len(sizes)-1)]
	rn := sizes[zzLen(0, len(sizes)-1)]
	query := make([]byte, n)
	copy(query, zzBytes(4))
	query[n-1] = zzU8()
	reply := make([]byte, rn)
	copy(reply, zzBytes(4))
	reply[rn-1] = zzU8()
	origQ := append([]byte{}, query...)
	be := &zzBackend{reply: reply, need: 1, ready: make(chan struct{})}
	dir := &zzDirector{backend: be}
	svc := services.DNSProxy(services.WithChannel(ch), services.WithDirector(dir))
	laddr := &net.UDPAddr{IP: net.IPv4(10, 0, 0, 1), Port: 53}
	hc := &Honeytrap{ports: map[net.Addr][]*ServiceMap{laddr: {{Service: svc, Name: "dns-proxy", Type: "dns-proxy"}}}}
	var toClient [][]byte
	conn := &listener.DummyUDPConn{Buffer: query, Laddr: laddr, Raddr: &net.UDPAddr{IP: net.IPv4(10, 9, 9, 9), Port: 40000},
		Fn: func(b []byte, addr *net.UDPAddr) (int, error) {
			toClient = append(toClient, append([]byte{}, b...))
			return len(b), nil
		}}
	hc.handle(conn)
	zzAssert(dir.dials == 1, "the proxy opens exactly one connection, to the configured backend")
	zzAssert(zzBytesEq2(be.got, origQ), "the datagram reaches the backend with the same content")
	zzAssert(len(toClient) == 1 && zzBytesEq2(toClient[0], reply), "the backend's reply reaches the client unchanged")
	zzAssert(len(ch.evs) == 1, "the relayed request is recorded in one event")
}

// zzClient: the client side of a proxied TCP connection: sends `data`, then half-closes
// (EOF on the proxy's reads), and collects what the proxy writes back.
type zzClient struct {
	data []byte
	pos  int
	got  []byte
}

func (c *zzClient) Read(p []byte) (int, error) {
	if c.pos >= len(c.data) {
		return 0, io.EOF
	}
	n := copy(p, c.data[c.pos:])
	c.pos += n
	return n, nil
}
func (c *zzClient) Write(p []byte) (int, error)        { c.got = append(c.got, p...); return len(p), nil }
func (c *zzClient) Close() error                       { return nil }
func (c *zzClient) LocalAddr() net.Addr                { return &net.TCPAddr{IP: net.IPv4(10, 0, 0, 1), Port: 8022} }
func (c *zzClient) RemoteAddr() net.Addr               { return &net.TCPAddr{IP: net.IPv4(10, 9, 9, 9), Port: 40000} }
func (c *zzClient) SetDeadline(t time.Time) error      { return nil }
func (c *zzClient) SetReadDeadline(t time.Time) error  { return nil }
func (c *zzClient) SetWriteDeadline(t time.Time) error { return nil }

// C15/copy-relay: a TCP client sends a request and half-closes; the backend answers after
// it has the whole request. Under every interleaving of the two copy directions the backend
// receives the request and the client receives the whole reply.
func zzH_C15_copy() {
	ch := &zzEvCh{}
	req := zzBytes(zzLen(1, 3))
	reply := zzBytes(zzLen(1, 3))
	be := &zzBackend{reply: reply, need: len(req), ready: make(chan struct{})}
	dir := &zzDirector{backend: be}
	svc := services.Copy(services.WithChannel(ch), services.WithDirector(dir))
	laddr := &net.TCPAddr{IP: net.IPv4(10, 0, 0, 1), Port: 8022}
	hc := &Honeytrap{ports: map[net.Addr][]*ServiceMap{laddr: {{Service: svc, Name: "copy", Type: "copy"}}}}
	cl := &zzClient{data: append([]byte{}, req...)}
	hc.handle(cl)
	zzQuiesce()
	zzAssert(dir.dials == 1, "the proxy opens exactly one connection, to the configured backend")
	zzAssert(zzBytesEq2(be.got, req), "the client's bytes reach the backend unchanged")
	zzAssert(zzBytesEq2(cl.got, reply), "the backend's reply reaches the client unchanged, also when the client has finished sending first")
	zzAssert(len(ch.evs) == 1, "the relayed connection is recorded in one event")
}
