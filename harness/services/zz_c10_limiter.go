//go:build verif

package services

import (
	"context"
	"net"

	"github.com/honeytrap/honeytrap/event"
	"github.com/honeytrap/honeytrap/listener"
	"github.com/honeytrap/honeytrap/pushers"
	"golang.org/x/time/rate"
)

// ---- exact integer model of (*rate.Limiter).Allow within one limiter interval ----
// A limiter starts with Burst() tokens; within a window shorter than the refill interval
// no token comes back, so Allow succeeds exactly Burst() times. Burst and rate are read
// from the real rate.Limiter object the code under test built.
var (
	zzRemaining map[*rate.Limiter]int
	zzGrants    int
	zzBadRate   bool
)

func zzStubAllow(l *rate.Limiter) bool {
	// read the parameters first (these calls take the limiter's mutex, i.e. are scheduling
	// points); the token accounting below is one atomic step, as the real Allow is
	burst, lim := l.Burst(), float64(l.Limit())
	if zzRemaining == nil {
		zzRemaining = map[*rate.Limiter]int{}
	}
	r, seen := zzRemaining[l]
	if !seen {
		r = burst
		// the claim is about one limiter interval of ten minutes: at most one token per 600 s
		if lim > 1.0/600.0 {
			zzBadRate = true
		}
	}
	if r <= 0 {
		zzRemaining[l] = 0
		return false
	}
	zzRemaining[l] = r - 1
	zzGrants++
	return true
}

type zzCRec struct{ n int }

func (r *zzCRec) Send(e event.Event) { r.n++ }

var _ pushers.Channel = &zzCRec{}

type zzUDPService interface {
	Handle(context.Context, net.Conn) error
}

const zzBurst = 4 // the property's bound: four responses per source IP and interval

// zzAmplStep: one datagram from ip1 (source port and content symbolic) after k earlier
// grants to ip1 and j earlier grants to ip2, on one service instance.
func zzAmplStep(svc zzUDPService, allow func(net.Addr) bool, payload []byte) {
	zzRemaining, zzGrants, zzBadRate = nil, 0, false
	ip1, ip2 := net.IPv4(10, 1, 1, 1), net.IPv4(10, 2, 2, 2)
	if zzLen(0, 1) == 1 {
		// two distinct IPv6 sources
		ip1, ip2 = net.ParseIP("2001:db8::1"), net.ParseIP("2001:db8::2")
	}
	k := zzLen(0, zzBurst+1)
	j := zzLen(0, 2)
	for i := 0; i < k; i++ {
		allow(&net.UDPAddr{IP: ip1, Port: 1000 + i})
	}
	for i := 0; i < j; i++ {
		allow(&net.UDPAddr{IP: ip2, Port: 2000 + i})
	}
	grantsBefore := zzGrants
	var lim2 *rate.Limiter
	rem2 := 0
	for l, r := range zzRemaining {
		_ = l
		rem2 += r
	}
	_ = lim2
	writes := 0
	conn := &listener.DummyUDPConn{Buffer: payload, Laddr: &net.UDPAddr{IP: net.IPv4(10, 0, 0, 1), Port: 69},
		Raddr: &net.UDPAddr{IP: ip1, Port: int(zzU16())},
		Fn: func(b []byte, addr *net.UDPAddr) (int, error) {
			writes++
			if zzSymbolic() { // natively the real limiter runs: the count is checked at the end
				zzAssert(writes <= zzGrants-grantsBefore, "every response datagram is preceded by its own grant from the rate limiter")
			}
			return len(b), nil
		}}
	// a panic while handling one datagram is confined to it by the server (C01); here
	// only the number of responses matters
	zzDidPanic(func() { svc.Handle(context.Background(), conn) })
	zzAssert(!zzBadRate, "the limiter refills at most one token per ten minutes")
	if k > zzBurst {
		k = zzBurst
	}
	if !zzSymbolic() {
		// native twin (real x/time/rate limiter): after k earlier grants at most 4-k responses remain
		// (each response must have consumed one of the four tokens: probe how many are left)
		left2 := 0
		for i := 0; i < zzBurst+1; i++ {
			if allow(&net.UDPAddr{IP: ip2, Port: 3000 + i}) {
				left2++
			}
		}
		zzAssert(left2 == zzBurst-j, "one source's requests never use up another source's allowance")
		left := 0
		for i := 0; i < zzBurst+1; i++ {
			if allow(&net.UDPAddr{IP: ip1, Port: 5000 + i}) {
				left++
			}
		}
		zzAssert(k+writes+left <= zzBurst, "every response datagram is preceded by its own grant from the rate limiter")
		return
	}
	granted1 := zzGrants - grantsBefore
	zzAssert(k+granted1 <= zzBurst, "one source IP is granted at most four responses within the interval, whatever ports and contents it uses")
	zzAssert(writes <= granted1, "no more responses than grants")
	// the other source's allowance is untouched: it still gets exactly burst-j more grants
	g0 := zzGrants
	for i := 0; i < zzBurst+1; i++ {
		allow(&net.UDPAddr{IP: ip2, Port: 3000 + i})
	}
	zzAssert(zzGrants-g0 == zzBurst-j, "one source's requests never use up another source's allowance")
}

func zzH_C10_tftp() {
	s := TFTP().(*tftpService)
	s.SetChannel(&zzCRec{})
	n := zzLen(2, zzParam("N", 6))
	p := zzBytes(n)
	zzAssume(p[0] == 0)
	zzAmplStep(s, s.limiter.Allow, p)
}

func zzH_C10_memcached() {
	s := Memcached().(*memcachedService)
	s.SetChannel(&zzCRec{})
	// 8-byte UDP frame header, then 1..2 commands from a table, each terminated by \r\n
	cmds := []string{"stats", "flush_all", "get k", "version", "x"}
	payload := zzBytes(8)
	nc := zzLen(1, zzParam("CMDS", 2))
	for i := 0; i < nc; i++ {
		payload = append(payload, []byte(cmds[zzLen(0, len(cmds)-1)]+"\r\n")...)
	}
	zzAmplStep(s, s.limiter.Allow, payload)
}

func zzH_C10_counterstrike() {
	s := CounterStrike().(*counterStrikeService)
	s.SetChannel(&zzCRec{})
	n := zzLen(0, zzParam("N", 6))
	zzAmplStep(s, s.limiter.Allow, zzBytes(n))
}

// C10/limiter-concurrent: two handler goroutines serve the first datagrams of a
// previously unseen source at the same time (the server starts one goroutine per
// datagram): together they still get at most four grants.
func zzH_C10_limiter_conc() {
	zzRemaining, zzGrants, zzBadRate = nil, 0, false
	l := NewLimiter()
	ip := net.IPv4(10, 3, 3, 3)
	done := 0
	for g := 0; g < 2; g++ {
		go func(g int) {
			for i := 0; i < 3; i++ {
				l.Allow(&net.UDPAddr{IP: ip, Port: 4000 + 10*g + i})
			}
			done++
		}(g)
	}
	zzQuiesce()
	zzAssert(done == 2, "both handlers finish")
	zzAssert(zzGrants <= zzBurst, "concurrent first datagrams of one source share one allowance")
}
