//go:build verif

package smtp

import (
	"context"
	"errors"
	"io"
	"net"
	"runtime"
	"time"

	"github.com/honeytrap/honeytrap/event"
	"github.com/honeytrap/honeytrap/services/bannerfmt"
)

type zzMConn struct {
	data   []byte
	pos    int
	out    []byte
	closed bool
	remote net.Addr
}

func (c *zzMConn) Read(b []byte) (int, error) {
	if c.pos >= len(c.data) {
		return 0, io.EOF
	}
	n := copy(b, c.data[c.pos:])
	c.pos += n
	return n, nil
}
func (c *zzMConn) Write(b []byte) (int, error)        { c.out = append(c.out, b...); return len(b), nil }
func (c *zzMConn) Close() error                       { c.closed = true; return nil }
func (c *zzMConn) LocalAddr() net.Addr                { return &net.TCPAddr{IP: net.IPv4(10, 0, 0, 1), Port: 25} }
func (c *zzMConn) RemoteAddr() net.Addr               { return c.remote }
func (c *zzMConn) SetDeadline(t time.Time) error      { return nil }
func (c *zzMConn) SetReadDeadline(t time.Time) error  { return nil }
func (c *zzMConn) SetWriteDeadline(t time.Time) error { return nil }

type zzMRec struct{ evs []event.Event }

func (r *zzMRec) Send(e event.Event) { r.evs = append(r.evs, e) }

func zzStubNoStorage() (*smtpStorage, error) { return nil, errors.New("zz: no storage") }

func zzStubBannerNew(templ string, data interface{}) (*bannerfmt.BannerFmt, error) {
	return &bannerfmt.BannerFmt{}, nil
}
func zzStubBannerString(b *bannerfmt.BannerFmt) string { return "mx.example SMTP Ready" }

// C03+C09/smtp-sessions: N sequential sessions from different client addresses on ONE
// service instance, each delivering one message (subject names the session) and leaving.
// Every event must carry the address of the session whose bytes caused it, each message is
// reported once, and after each Handle has returned no goroutine made for it is left.
func zzH_C03_smtp() {
	if !zzSymbolic() {
		// native twin: one processor, so that a goroutine started by the session runs only when
		// the session blocks or ends (the schedule the interpreter found first)
		defer runtime.GOMAXPROCS(runtime.GOMAXPROCS(1))
	}
	rec := &zzMRec{}
	s := SMTP().(*Service)
	s.SetChannel(rec)
	n := zzLen(1, zzParam("N", 2))
	base := zzLive()
	tag := zzString(1)
	zzAssume(zzAnd(tag[0] >= 'a', tag[0] <= 'z'))
	for i := 0; i < n; i++ {
		subj := "s" + string(rune('0'+i)) + tag
		dialog := "HELO c\r\nMAIL FROM:<a@b>\r\nRCPT TO:<c@d>\r\nDATA\r\nSubject: " + subj + "\r\n\r\nhi\r\n.\r\nQUIT\r\n"
		conn := &zzMConn{data: []byte(dialog), remote: &net.TCPAddr{IP: net.IPv4(10, 9, 9, byte(10+i)), Port: 40000 + i}}
		s.Handle(context.Background(), conn)
		zzQuiesce()
		zzAssert(conn.closed, "the connection is closed when the handler returns")
		zzAssert(zzLive() == base, "when a connection's handler has returned, no goroutine created on its behalf is left behind")
	}
	mails := 0
	for _, ev := range rec.evs {
		m := event.ToMap(ev)
		src, _ := m["source-ip"].(string)
		if t, _ := m["type"].(string); t == "email" {
			mails++
			subj, _ := m["smtp.Subject"].(string)
			ok := false
			for i := 0; i < n; i++ {
				if subj == "s"+string(rune('0'+i))+tag && src == net.IPv4(10, 9, 9, byte(10+i)).String() {
					ok = true
				}
			}
			zzAssert(ok, "a message event carries the address of the connection that delivered the message")
		}
	}
	zzAssert(mails == n, "every delivered message is reported exactly once")
}

// C01+C09/bytes-smtp: any N bytes (optionally after a HELO line) followed by the client
// going away: the handler returns, closes the connection and leaves no goroutine.
func zzH_C09_bytes_smtp() {
	n := zzLen(0, zzParam("N", 3))
	data := zzBytes(n)
	for i := 0; i < n; i++ {
		zzAssume(data[i] < 0x80) // ASCII: case mapping / rune decoding of symbolic non-ASCII bytes is beyond the solver budget
	}
	if zzBool() {
		data = append([]byte("HELO c\r\n"), data...)
	}
	s := SMTP().(*Service)
	s.SetChannel(&zzMRec{})
	base := zzLive()
	conn := &zzMConn{data: data, remote: &net.TCPAddr{IP: net.IPv4(10, 9, 9, 9), Port: 40000}}
	zzUnwindIn("smtp", 4*n+24, true)
	zzDidPanic(func() { s.Handle(context.Background(), conn) })
	zzUnwindIn("", 0, false)
	zzQuiesce()
	zzAssert(conn.closed, "the connection is closed when the handler returns")
	zzAssert(zzLive() == base, "no goroutine created on the connection's behalf outlives the handler")
}
