//go:build verif

package canary

import (
	"context"
	"syscall"

	"github.com/honeytrap/honeytrap/listener/canary/ethernet"
	"github.com/honeytrap/honeytrap/listener/canary/ipv4"
	"github.com/honeytrap/honeytrap/listener/canary/tcp"
)

// the packet socket as the receive loop sees it: each EpollWait reports one readable frame
// until the queue is empty, then blocks for good
var (
	zzRxFrames [][]byte
	zzRxPos    int
	zzRxNever  chan struct{}
)

func zzStubEpollWait(epfd int, events []syscall.EpollEvent, msec int) (int, error) {
	if zzRxPos >= len(zzRxFrames) {
		<-zzRxNever
	}
	events[0] = syscall.EpollEvent{Events: syscall.EPOLLIN, Fd: 5}
	return 1, nil
}

func zzStubRecvfrom(fd int, p []byte, flags int) (int, syscall.Sockaddr, error) {
	f := zzRxFrames[zzRxPos]
	zzRxPos++
	return copy(p, f), nil, nil
}

// native twin of the loop body (the real loop needs packet sockets)
func zzDispatchMirror(c *Canary, frame []byte) {
	eh, err := ethernet.Parse(frame)
	if err != nil || eh.Type != EthernetTypeIPv4 {
		return
	}
	iph, err := ipv4.Parse(eh.Payload)
	if err != nil {
		return
	}
	data := make([]byte, len(iph.Payload))
	copy(data, iph.Payload)
	switch iph.Protocol {
	case 1:
		c.handleICMP(eh, iph, data)
	case 6:
		c.handleTCP(eh, iph, data)
	case 17:
		c.handleUDP(eh, iph, data)
	}
}

// C02/recv-loop: the REAL receive-loop closure of Start (epoll and recvfrom replaced by a
// frame queue) gets one frame whose ethernet type, IPv4 header fields and the first bytes
// of the transport header are symbolic, of every length 14..N, and then a well-formed SYN.
// No panic may escape the loop's goroutine and the SYN must still be answered.
func zzH_C02_recvloop() {
	c, _ := zzCanary()
	n := zzLen(14, zzParam("N", 54))
	frame := make([]byte, n)
	copy(frame, zzMyMAC)
	copy(frame[6:], zzPeerMAC)
	sym := zzBytes(n)
	for i := 12; i < n; i++ {
		frame[i] = sym[i]
	}
	if n >= 34 {
		// addresses: from the known peer to the sensor (formatting of addresses is value-independent)
		copy(frame[26:30], zzPeerIP.To4())
		copy(frame[30:34], zzMyIP.To4())
	}
	if n >= 38 {
		// keep the probe off the ports that have payload decoders (outside this harness)
		dport := uint16(frame[36])<<8 | uint16(frame[37])
		for _, p := range []uint16{22, 23, 53, 80, 123, 139, 161, 162, 443, 445, 1433, 1900, 5060, 6379, 9200} {
			zzAssume(dport != p)
		}
	}
	good := zzGoodSyn(40001, 8081, 7)
	zzTimers(0)
	if zzSymbolic() {
		zzRxFrames, zzRxPos, zzRxNever = [][]byte{frame, good}, 0, make(chan struct{})
		c.Start(context.Background())
		zzQuiesce()
	} else {
		msg := zzPanicMsg(func() { zzDispatchMirror(c, frame) })
		zzAssertMsg(msg == "", "no frame makes the receive loop panic", msg)
		zzDispatchMirror(c, good)
	}
	answered := false
	for _, f := range zzFrames(c) {
		if len(f) >= 54 && f[36] == byte(40001>>8) && f[37] == byte(40001&0xff) && f[47]&byte(tcp.SYN|tcp.ACK) == byte(tcp.SYN|tcp.ACK) {
			answered = true
		}
	}
	zzAssert(answered, "after any frame the receive loop still answers a well-formed connection attempt")
}

// zzGoodSyn: a complete ethernet frame with a SYN from the known peer.
func zzGoodSyn(sport, dport uint16, seq uint32) []byte {
	th := &tcp.Header{Source: sport, Destination: dport, SeqNum: seq, Ctrl: tcp.SYN, Window: 1000}
	seg, _ := th.Marshal()
	iph := &ipv4.Header{Version: 4, Len: 20, TotalLen: 20 + len(seg), TTL: 64, Protocol: 6, Src: zzPeerIP, Dst: zzMyIP}
	ip, _ := iph.Marshal()
	f := append([]byte{}, zzMyMAC...)
	f = append(f, zzPeerMAC...)
	f = append(f, 0x08, 0x00)
	f = append(f, ip...)
	return append(f, seg...)
}
