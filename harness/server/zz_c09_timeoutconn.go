//go:build verif

package server

import (
	"io"
	"net"
	"time"
)

// zzDLConn records the deadlines the wrapper sets (SetDeadline sets both, as net.Conn says).
type zzDLConn struct {
	rd, wd   time.Time
	rdSet    bool
	reads    int
	deadline int
}

func (c *zzDLConn) Read(b []byte) (int, error)  { c.reads++; return 0, io.EOF }
func (c *zzDLConn) Write(b []byte) (int, error) { return len(b), nil }
func (c *zzDLConn) Close() error                { return nil }
func (c *zzDLConn) LocalAddr() net.Addr         { return &net.TCPAddr{IP: net.IPv4(10, 0, 0, 1), Port: 5900} }
func (c *zzDLConn) RemoteAddr() net.Addr        { return &net.TCPAddr{IP: net.IPv4(10, 9, 9, 9), Port: 40000} }
func (c *zzDLConn) SetDeadline(t time.Time) error {
	c.rd, c.wd, c.rdSet = t, t, true
	c.deadline++
	return nil
}
func (c *zzDLConn) SetReadDeadline(t time.Time) error {
	c.rd, c.rdSet = t, true
	c.deadline++
	return nil
}
func (c *zzDLConn) SetWriteDeadline(t time.Time) error { c.wd = t; c.deadline++; return nil }

// C09/timeout-conn: the idle-timeout wrapper the server puts around every connection. A
// service may write on its own (vnc pushes frames, ftp/smtp banners) while its reader waits
// for the client. Over K operations (Read or Write, arbitrary time passing in between): a
// Read arms the read deadline at "now + timeout", and a Write never moves the read deadline
// - otherwise a silent client that keeps being written to is never timed out.
func zzH_C09_timeoutconn() {
	inner := &zzDLConn{}
	timeout := 30 * time.Second
	c := TimeoutConn(inner, timeout)
	k := zzParam("K", 4)
	buf := make([]byte, 4)
	for i := 0; i < k; i++ {
		zzClockAdvance(int64(zzU32())) // up to ~4 s pass
		if zzBool() {
			before := time.Now()
			c.Read(buf)
			after := time.Now()
			zzAssert(inner.rdSet, "a Read arms the read deadline")
			lo, hi := inner.rd.Sub(before), inner.rd.Sub(after)
			zzAssert(zzAnd(lo >= timeout, hi <= timeout), "the read deadline is the idle timeout after the moment the Read started")
		} else {
			rd, set := inner.rd, inner.rdSet
			c.Write(buf)
			zzAssert(inner.rdSet == set && inner.rd.Equal(rd), "a Write does not move the read deadline: only the client's silence is timed")
		}
	}
}
