package sx

import (
	"fmt"
	"go/types"
	"strings"

	"gosx/smt"

	"golang.org/x/tools/go/ssa"
)

// prepareCall evaluates the callee and the arguments of a call.
func (e *Engine) prepareCall(f *frame, c *ssa.CallCommon) (Value, []Value) {
	args := make([]Value, 0, len(c.Args)+1)
	var fn Value
	if c.IsInvoke() {
		recv := e.get(f, c.Value).(Iface)
		if recv.T == nil {
			e.goPanicRT("invalid memory address or nil pointer dereference (method call on nil interface " + c.Method.Name() + ")")
		}
		fn = e.lookupMethod(recv.T, c.Method)
		args = append(args, recv.V)
	} else {
		fn = e.get(f, c.Value)
	}
	for _, a := range c.Args {
		args = append(args, e.get(f, a))
	}
	return fn, args
}

func (e *Engine) lookupMethod(t types.Type, m *types.Func) Value {
	if t == gosxErrType || t == rtErrType {
		return &Closure{Name: "gosx.error." + m.Name(), Native: func(e *Engine, args []Value) Value {
			if m.Name() == "Error" {
				return args[0]
			}
			return nil
		}}
	}
	fn := e.prog.LookupMethod(t, m.Pkg(), m.Name())
	if fn == nil {
		e.unsupported("method %s not found on %s", m.Name(), t)
	}
	return &Closure{Fn: fn}
}

func (e *Engine) call(f *frame, c *ssa.CallCommon) Value {
	fn, args := e.prepareCall(f, c)
	return e.callValue(fn, args, c)
}

func fullName(fn *ssa.Function) string {
	// e.g. "net.Dial", "(*bufio.Reader).ReadString", "strings.Map$1"
	return fn.String()
}

func (e *Engine) callValue(fnv Value, args []Value, c *ssa.CallCommon) Value {
	cl, _ := fnv.(*Closure)
	if cl == nil {
		e.goPanicRT("invalid memory address or nil pointer dereference (call of nil func)")
	}
	if cl.Native != nil {
		return cl.Native(e, args)
	}
	if cl.Fn == nil {
		if strings.HasPrefix(cl.Name, "builtin:") {
			return e.builtin(cl.Name[8:], args, c)
		}
		e.unsupported("call of %s", cl.Name)
	}
	fn := cl.Fn
	name := fullName(fn)
	// generic instantiations: strip type args for matching
	base := name
	if i := strings.IndexByte(base, '['); i >= 0 && fn.Origin() != nil {
		base = fn.Origin().String()
	}
	if len(fn.Name()) > 2 && fn.Name()[:2] == "zz" {
		if h, ok := zzapi[fn.Name()]; ok {
			return h(e, args, fn)
		}
	}
	if rf, ok := e.replaceFn[base]; ok && !e.inReplacement(rf) {
		e.rep.FuncsReplaced[base]++
		return e.callFunction(rf, e.adaptArgs(rf, args), nil)
	}
	if in, ok := intrinsics[base]; ok {
		e.rep.FuncsIntrinsic[base]++
		return in(e, args, fn)
	}
	if strings.HasPrefix(base, "(time.Time).") || strings.HasPrefix(base, "(*time.Time).") {
		e.unsupported("time.Time method without a model: %s", base)
	}
	if fn.Pkg != nil {
		pp := fn.Pkg.Pkg.Path()
		if fn.Name() == "init" && fn.Signature.Recv() == nil && fn.Parent() == nil {
			if e.frozen {
				return nil
			}
			if !e.wantInit(pp) {
				return nil
			}
			if e.initDone[fn.Pkg] {
				return nil
			}
			e.initDone[fn.Pkg] = true
		}
		if e.isOpaque(pp) {
			e.rep.FuncsOpaque[base]++
			return e.zeroResults(fn)
		}
	} else if fn.Parent() == nil && fn.Synthetic != "" && fn.Blocks == nil {
		e.unsupported("synthetic function without body %s", name)
	}
	if fn.Blocks == nil {
		e.unsupported("no body and no intrinsic for %s", name)
	}
	e.rep.FuncsReal[base]++
	return e.callFunction(fn, args, cl.Env)
}

// adaptArgs lets a replacement for a method take the receiver as first parameter.
func (e *Engine) adaptArgs(rf *ssa.Function, args []Value) []Value {
	if len(rf.Params) == len(args) {
		return args
	}
	if len(rf.Params) == len(args)-1 {
		return args[1:] // replacement ignores the receiver
	}
	panic(fmt.Sprintf("gosx: replacement %s has %d params, call has %d args", rf, len(rf.Params), len(args)))
}

func (e *Engine) inReplacement(rf *ssa.Function) bool {
	for _, fr := range e.stack {
		if fr.fn == rf {
			return true
		}
	}
	return false
}

var defaultOpaque = []string{
	"github.com/op/go-logging", "github.com/fatih/color", "log", "github.com/mattn/go-isatty",
	"github.com/mattn/go-colorable", "runtime/debug", "runtime/pprof", "runtime/trace", "log/syslog",
}

func (e *Engine) isOpaque(path string) bool {
	for _, p := range defaultOpaque {
		if path == p || strings.HasPrefix(path, p+"/") {
			return true
		}
	}
	for _, p := range e.cfg.OpaquePkgs {
		if path == p || strings.HasPrefix(path, p+"/") {
			return true
		}
	}
	return false
}

func (e *Engine) builtin(name string, args []Value, c *ssa.CallCommon) Value {
	switch name {
	case "len":
		switch x := args[0].(type) {
		case Str:
			return e.intC(x.Len())
		case Slice:
			return e.intC(x.Len)
		case *MapObj:
			if x == nil {
				return e.intC(0)
			}
			return e.intC(len(x.Keys))
		case *ChanObj:
			if x == nil {
				return e.intC(0)
			}
			return e.intC(len(x.buf))
		case Ptr:
			return e.intC(len(x.Obj.Sub))
		case *Array:
			return e.intC(len(x.E))
		}
	case "cap":
		switch x := args[0].(type) {
		case Slice:
			return e.intC(x.Cap)
		case *ChanObj:
			if x == nil {
				return e.intC(0)
			}
			return e.intC(x.cap)
		case Ptr:
			return e.intC(len(x.Obj.Sub))
		case *Array:
			return e.intC(len(x.E))
		}
	case "append":
		s := args[0].(Slice)
		var add []Value
		switch t := args[1].(type) {
		case Slice:
			for i := 0; i < t.Len; i++ {
				add = append(add, e.load(e.sub(t.Arr, t.Off+i)))
			}
		case Str:
			for _, b := range e.strBytes(t) {
				add = append(add, b)
			}
		}
		if len(add) == 0 {
			return s
		}
		elem := c.Args[0].Type().Underlying().(*types.Slice).Elem()
		return e.appendVals(s, add, elem)
	case "copy":
		dst := args[0].(Slice)
		n := dst.Len
		switch src := args[1].(type) {
		case Slice:
			if src.Len < n {
				n = src.Len
			}
			vals := make([]Value, n)
			for i := 0; i < n; i++ {
				vals[i] = e.load(e.sub(src.Arr, src.Off+i))
			}
			for i := 0; i < n; i++ {
				e.store(e.sub(dst.Arr, dst.Off+i), vals[i])
			}
		case Str:
			if src.Len() < n {
				n = src.Len()
			}
			for i := 0; i < n; i++ {
				e.store(e.sub(dst.Arr, dst.Off+i), e.strByte(src, i))
			}
		}
		return e.intC(n)
	case "delete":
		e.mapDelete(args[0].(*MapObj), args[1])
		return nil
	case "panic":
		panic(&goPanic{pos: e.curPosStr(), val: args[0], msg: e.describe(args[0]), stack: e.stackNames()})
	case "recover":
		return e.doRecover()
	case "print", "println":
		return nil
	case "close":
		e.chanClose(args[0].(*ChanObj))
		return nil
	case "min", "max":
		r := args[0].(*smt.Term)
		t := c.Args[0].Type()
		for _, a := range args[1:] {
			b := a.(*smt.Term)
			var lt *smt.Term
			if isSigned(t) {
				lt = e.ctx.Cmp(smt.OpBVSlt, b, r)
			} else {
				lt = e.ctx.Cmp(smt.OpBVUlt, b, r)
			}
			if name == "max" {
				lt = e.ctx.Not(e.ctx.Or(lt, e.ctx.Eq(b, r)))
			}
			r = e.ctx.Ite(lt, b, r)
		}
		return r
	case "clear":
		switch x := args[0].(type) {
		case *MapObj:
			if x != nil {
				e.logMap(x)
				x.Keys, x.Vals = nil, nil
			}
		case Slice:
			et := x.Arr.T.Underlying().(*types.Array).Elem()
			for i := 0; i < x.Len; i++ {
				e.store(e.sub(x.Arr, x.Off+i), e.zero(et))
			}
		}
		return nil
	case "String": // unsafe.String(ptr, len)
		p := args[0].(Ptr)
		n, ok := concInt(e.toInt64(args[1].(*smt.Term), c.Args[1].Type()))
		if !ok {
			e.unsupported("unsafe.String with symbolic length")
		}
		if n == 0 {
			return Str{}
		}
		if p.Obj == nil || p.Obj.Parent == nil {
			e.unsupported("unsafe.String on a pointer that is not an array element")
		}
		bs := make([]*smt.Term, n)
		for i := 0; i < n; i++ {
			bs[i] = e.load(e.sub(p.Obj.Parent, p.Obj.Idx+i)).(*smt.Term)
		}
		return e.mkStr(bs)
	case "StringData":
		s := args[0].(Str)
		if s.Len() == 0 {
			return Ptr{}
		}
		sl := e.bytesToSlice(e.strBytes(s))
		return Ptr{Obj: e.sub(sl.Arr, 0)}
	case "SliceData":
		s := args[0].(Slice)
		if s.Arr == nil {
			return Ptr{}
		}
		if s.Cap == 0 {
			return Ptr{Obj: e.newObj(s.Arr.T.Underlying().(*types.Array).Elem())}
		}
		return Ptr{Obj: e.sub(s.Arr, s.Off)}
	case "Slice": // unsafe.Slice(ptr, len)
		p := args[0].(Ptr)
		n, ok := concInt(e.toInt64(args[1].(*smt.Term), c.Args[1].Type()))
		if !ok {
			e.unsupported("unsafe.Slice with symbolic length")
		}
		if p.Obj == nil {
			return Slice{}
		}
		if p.Obj.Parent == nil {
			if n <= 1 {
				arr := e.newArrayObj(p.Obj.T, 1)
				arr.Sub[0] = p.Obj
				return Slice{Arr: arr, Len: n, Cap: n}
			}
			e.unsupported("unsafe.Slice on a pointer that is not an array element")
		}
		return Slice{Arr: p.Obj.Parent, Off: p.Obj.Idx, Len: n, Cap: n}
	case "ssa:wrapnilchk":
		p, _ := args[0].(Ptr)
		if p.Obj == nil {
			e.goPanicRT("value method called using nil pointer")
		}
		return args[0]
	}
	e.unsupported("builtin %s on %T", name, args[0])
	return nil
}

func (e *Engine) appendVals(s Slice, add []Value, elem types.Type) Slice {
	n := s.Len + len(add)
	if s.Arr != nil && n <= s.Cap {
		for i, v := range add {
			e.store(e.sub(s.Arr, s.Off+s.Len+i), v)
		}
		return Slice{Arr: s.Arr, Off: s.Off, Len: n, Cap: s.Cap}
	}
	nc := s.Cap * 2
	if nc < n {
		nc = n
	}
	if nc < 4 {
		nc = 4
	}
	arr := e.newArrayObj(elem, nc)
	for i := 0; i < s.Len; i++ {
		e.store(e.sub(arr, i), e.load(e.sub(s.Arr, s.Off+i)))
	}
	for i, v := range add {
		e.store(e.sub(arr, s.Len+i), v)
	}
	return Slice{Arr: arr, Off: 0, Len: n, Cap: nc}
}

// ---- helpers for intrinsics working with slices of bytes ----

func (e *Engine) sliceBytes(s Slice) []*smt.Term {
	r := make([]*smt.Term, s.Len)
	for i := 0; i < s.Len; i++ {
		r[i] = e.load(e.sub(s.Arr, s.Off+i)).(*smt.Term)
	}
	return r
}

func (e *Engine) bytesToSlice(bs []*smt.Term) Slice {
	arr := e.newArrayObj(types.Typ[types.Uint8], len(bs))
	for i, b := range bs {
		e.sub(arr, i).V = b
	}
	return Slice{Arr: arr, Len: len(bs), Cap: len(bs)}
}

func (e *Engine) concreteBytes(s Slice) ([]byte, bool) {
	out := make([]byte, s.Len)
	for i := 0; i < s.Len; i++ {
		t := e.load(e.sub(s.Arr, s.Off+i)).(*smt.Term)
		if !t.IsConst() {
			return nil, false
		}
		out[i] = byte(t.C)
	}
	return out, true
}
