//go:build verif

package agent

import (
	"encoding"
	"io"
	"net"
	"time"
)

// zzDuplex: the agent's side of the transport. Messages queued in `in` are delivered one
// Write-unit per Read (the framed transport's contract); when `in` is empty Read blocks
// until the gate is closed and then reports the end of the stream. Writes of the server are
// collected; the first write of every frame may block for a while (zzYield), as a network
// write does.
type zzDuplex struct {
	in   [][]byte
	out  [][]byte
	gate chan struct{}
}

func (c *zzDuplex) Read(b []byte) (int, error) {
	if len(c.in) == 0 {
		<-c.gate
		return 0, io.EOF
	}
	m := c.in[0]
	c.in = c.in[1:]
	return copy(b, m), nil
}
func (c *zzDuplex) Write(b []byte) (int, error) {
	if len(b) == 1 {
		zzYield() // the first write of a frame (its type byte) may block; the rest follows at once
	}
	cp := make([]byte, len(b))
	copy(cp, b)
	c.out = append(c.out, cp)
	return len(b), nil
}
func (c *zzDuplex) Close() error                       { return nil }
func (c *zzDuplex) LocalAddr() net.Addr                { return &net.TCPAddr{IP: net.IPv4(10, 0, 0, 1), Port: 1339} }
func (c *zzDuplex) RemoteAddr() net.Addr               { return &net.TCPAddr{IP: net.IPv4(10, 8, 8, 8), Port: 50000} }
func (c *zzDuplex) SetDeadline(t time.Time) error      { return nil }
func (c *zzDuplex) SetReadDeadline(t time.Time) error  { return nil }
func (c *zzDuplex) SetWriteDeadline(t time.Time) error { return nil }

// zzFrames encodes messages with the real send.
func zzFrames(msgs ...encoding.BinaryMarshaler) [][]byte {
	mc := &zzMsgConn{}
	c := Conn2(mc)
	for _, m := range msgs {
		c.send(m)
	}
	return mc.q
}

// C16/serv-session: one agent session through the real serv loop. The agent announces two
// TCP connections (the service closes the second at once, the agent's EOF for it comes
// later), relays two symbolic payload bytes on it, relays one UDP datagram with two
// symbolic bytes, and ends the TCP connection. The sensor-side service reads both, answers
// both from buffers it reuses right after Write returns, and sees the end of the TCP stream.
// What the agent receives back must be exactly what the service wrote, addressed to the
// right connection; what the service read must be exactly what the agent relayed.
func zzH_C16_serv() {
	tl, tr := &net.TCPAddr{IP: net.IPv4(10, 0, 0, 5).To4(), Port: 23}, &net.TCPAddr{IP: net.IPv4(1, 2, 3, 4).To4(), Port: 51000}
	ul, ur := &net.UDPAddr{IP: net.IPv4(10, 0, 0, 5).To4(), Port: 69}, &net.UDPAddr{IP: net.IPv4(1, 2, 3, 9).To4(), Port: 52000}
	p1, u1, p2 := zzBytes(2), zzBytes(2), zzBytes(1)
	// a second virtual connection B that the SERVICE closes first; the agent's EOF for it
	// arrives afterwards and must not disturb connection A
	bl, br := &net.TCPAddr{IP: net.IPv4(10, 0, 0, 5).To4(), Port: 80}, &net.TCPAddr{IP: net.IPv4(1, 2, 3, 5).To4(), Port: 51001}
	d := &zzDuplex{gate: make(chan struct{})}
	d.in = zzFrames(
		Handshake{ProtocolVersion: 1, CommitID: "c", ShortCommitID: "c", Version: "v", Token: "tok"},
		ReadWriteUDP{Laddr: ul, Raddr: ur, Payload: u1},
		Hello{Laddr: tl, Raddr: tr},
		ReadWriteTCP{Laddr: tl, Raddr: tr, Payload: p1},
		Hello{Laddr: bl, Raddr: br},
		EOF{Laddr: bl, Raddr: br},
		ReadWriteTCP{Laddr: tl, Raddr: tr, Payload: p2},
		EOF{Laddr: tl, Raddr: tr},
	)
	al := &agentListener{ch: make(chan net.Conn)}
	var got1, got2, got3 []byte
	var eofErr error
	sawEOF, svcDone := false, false
	go func() {
		buf := make([]byte, 8)
		c2 := <-al.ch
		n, _ := c2.Read(buf)
		got2 = append(got2, buf[:n]...)
		r2 := []byte{'u', 0}
		if len(got2) > 0 {
			r2[1] = got2[0]
		}
		c2.Write(r2)
		r2[0], r2[1] = 'Z', 'Z' // the service reuses its buffer
		c1 := <-al.ch
		for len(got1) < 2 {
			n, err := c1.Read(buf)
			got1 = append(got1, buf[:n]...)
			if err != nil {
				break
			}
		}
		r1 := []byte{'o', 'k', 0}
		if len(got1) > 0 {
			r1[2] = got1[0]
		}
		c1.Write(r1)
		r1[0], r1[1], r1[2] = 'Z', 'Z', 'Z'
		cb := <-al.ch
		cb.Close() // the service is done with B at once
		for {
			n, eofErr = c1.Read(buf)
			got3 = append(got3, buf[:n]...)
			if eofErr != nil {
				break
			}
		}
		sawEOF = eofErr == io.EOF
		svcDone = true
	}()
	servDone := false
	go func() { al.serv(Conn2(d)); servDone = true }()
	zzQuiesce()
	close(d.gate) // the agent goes away
	zzQuiesce()
	zzAssert(zzAnd(svcDone, servDone), "the session loop and the service finish")
	zzAssert(zzBytesEq(got1, p1), "the service reads exactly the bytes the agent relayed on the TCP connection")
	zzAssert(zzBytesEq(got2, u1), "the service reads exactly the relayed datagram")
	zzAssert(zzBytesEq(got3, p2), "data relayed on a connection after ANOTHER connection has ended still reaches the service")
	zzAssert(sawEOF, "the end of the TCP stream reaches the service after the data")
	// what the agent got back
	back := Conn2(&zzMsgConn{q: d.out})
	var tcpBack, udpBack []byte
	nTCP, nUDP, other := 0, 0, 0
	for {
		o, err := back.receive()
		if err != nil {
			break
		}
		switch v := o.(type) {
		case *HandshakeResponse:
		case *ReadWriteTCP:
			nTCP++
			tcpBack = append(tcpBack, v.Payload...)
			zzAssert(zzAnd(zzAddrEq(v.Laddr, tl), zzAddrEq(v.Raddr, tr)), "TCP data sent back names the connection it belongs to")
		case *ReadWriteUDP:
			nUDP++
			udpBack = v.Payload
			zzAssert(zzAnd(zzAddrEq(v.Laddr, ul), zzAddrEq(v.Raddr, ur)), "a datagram sent back names the addresses of the datagram it answers")
		case *EOF:
		default:
			other++
		}
	}
	zzAssert(nUDP == 1 && other == 0, "exactly one datagram goes back to the agent")
	zzAssert(zzBytesEq(tcpBack, []byte{'o', 'k', p1[0]}), "the agent receives exactly the bytes the service wrote on the TCP connection")
	zzAssert(zzBytesEq(udpBack, []byte{'u', u1[0]}), "the agent receives exactly the datagram the service wrote")
}
