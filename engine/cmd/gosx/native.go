package main

// nativeAPI is the native implementation of the harness API. Under the interpreter
// every zz* function is intercepted; natively they replay a model.
const nativeAPI = `//go:build verif

package PKG

import (
	zzjson "encoding/json"
	zzfmt "fmt"
	zzos "os"
	zzreflect "reflect"
	zzruntime "runtime"
	zzstrings "strings"
	zzunsafe "unsafe"
	zztime "time"
)

type zzNd struct {
	Name string ` + "`json:\"name\"`" + `
	Kind string ` + "`json:\"kind\"`" + `
	W    int    ` + "`json:\"w\"`" + `
	Val  uint64 ` + "`json:\"val\"`" + `
	Env  bool   ` + "`json:\"env\"`" + `
}

type zzModelFile struct {
	Harness string         ` + "`json:\"harness\"`" + `
	Params  map[string]int ` + "`json:\"params\"`" + `
	Nondets []zzNd         ` + "`json:\"nondets\"`" + `
}

var (
	zzModel    zzModelFile
	zzStream   []zzNd
	zzPos      int
	zzFailures int
	zzBaseG    int
)

type zzSkip struct{ msg string }

func zzLoadModel(path string) error {
	b, err := zzos.ReadFile(path)
	if err != nil {
		return err
	}
	if err := zzjson.Unmarshal(b, &zzModel); err != nil {
		return err
	}
	zzStream = nil
	for _, n := range zzModel.Nondets {
		if !n.Env {
			zzStream = append(zzStream, n)
		}
	}
	zzPos = 0
	zzBaseG = zzruntime.NumGoroutine()
	return nil
}

func zzNext() uint64 {
	if zzPos >= len(zzStream) {
		zzPos++
		return 0
	}
	v := zzStream[zzPos].Val
	zzPos++
	return v
}

func zzU8() uint8   { return uint8(zzNext()) }
func zzU16() uint16 { return uint16(zzNext()) }
func zzU32() uint32 { return uint32(zzNext()) }
func zzU64() uint64 { return zzNext() }
func zzI64() int64  { return int64(zzNext()) }
func zzI32() int32  { return int32(zzNext()) }
func zzI16() int16  { return int16(zzNext()) }
func zzInt() int    { return int(zzNext()) }
func zzBool() bool  { return zzNext() != 0 }

func zzBytes(n int) []byte {
	b := make([]byte, n)
	for i := range b {
		b[i] = zzU8()
	}
	return b
}

func zzString(n int) string { return string(zzBytes(n)) }

func zzLen(lo, hi int) int {
	v := int(zzNext())
	if v < lo {
		v = lo
	}
	if v > hi {
		v = hi
	}
	return v
}

func zzAssume(c bool) {
	if !c {
		panic(zzSkip{"assumption false"})
	}
}

func zzAssert(c bool, msg string) {
	if !c {
		zzFailures++
		zzfmt.Println("ZZ-ASSERT-FAILED:", msg)
	}
}

func zzAssertMsg(c bool, msg string, detail string) {
	if !c {
		zzFailures++
		zzfmt.Println("ZZ-ASSERT-FAILED:", msg+":", detail)
	}
}

func zzCover(msg string) {}

// branch-free Boolean connectives (under the interpreter they build one term
// instead of forking the path)
func zzAnd(a, b bool) bool     { return a && b }
func zzOr(a, b bool) bool      { return a || b }
func zzImplies(a, b bool) bool { return !a || b }
func zzIteInt(c bool, a, b int) int {
	if c {
		return a
	}
	return b
}

func zzSymbolic() bool { return false }

func zzParam(name string, def int) int {
	if v, ok := zzModel.Params[name]; ok {
		return v
	}
	return def
}

func zzDidPanic(f func()) (p bool) {
	defer func() {
		if r := recover(); r != nil {
			if s, ok := r.(zzSkip); ok {
				panic(s)
			}
			p = true
		}
	}()
	f()
	return false
}

func zzPanicMsg(f func()) (m string) {
	defer func() {
		if r := recover(); r != nil {
			if s, ok := r.(zzSkip); ok {
				panic(s)
			}
			m = zzfmt.Sprint("panic: ", r)
		}
	}()
	f()
	return ""
}

func zzYield()   { zzruntime.Gosched() }
func zzQuiesce() { zztime.Sleep(300 * zztime.Millisecond) }
func zzLive() int {
	n := zzruntime.NumGoroutine() - zzBaseG
	if n < 0 {
		n = 0
	}
	return n
}
func zzUnwind(n int, isBug bool)   {}
func zzTimers(n int)               {}
func zzUnwindIn(fn string, n int, isBug bool) {}
func zzClockAdvance(d int64)       { }
func zzSameObject(a, b interface{}) bool { return a == b }

// zzSetHidden / zzGetHidden: field idx (exported or not) of the struct v points to. Used to
// label opaque library values (an undecoded toml.Primitive) so that a model can tell them apart.
func zzSetHidden(v interface{}, idx int, val interface{}) {
	f := zzreflect.ValueOf(v).Elem().Field(idx)
	zzreflect.NewAt(f.Type(), zzunsafe.Pointer(f.UnsafeAddr())).Elem().Set(zzreflect.ValueOf(val))
}
func zzGetHidden(v interface{}, idx int) interface{} {
	f := zzreflect.ValueOf(v).Elem().Field(idx)
	return zzreflect.NewAt(f.Type(), zzunsafe.Pointer(f.UnsafeAddr())).Elem().Interface()
}

// zzAssignByTag: v points to a struct; every field whose struct tag TAG names a key of kv
// gets that value (absent keys leave the field untouched - the contract of a table decoder).
// Returns the comma-separated tag names of the struct's fields, in field order.
func zzAssignByTag(v interface{}, tag string, kv map[string]interface{}) string {
	rv := zzreflect.ValueOf(v)
	if rv.Kind() != zzreflect.Ptr || rv.Elem().Kind() != zzreflect.Struct {
		return ""
	}
	st := rv.Elem()
	var names []string
	for i := 0; i < st.NumField(); i++ {
		name := st.Type().Field(i).Tag.Get(tag)
		names = append(names, name)
		if val, ok := kv[name]; ok && name != "" && st.Field(i).CanSet() {
			st.Field(i).Set(zzreflect.ValueOf(val))
		}
	}
	return zzstrings.Join(names, ",")
}
func zzAliases(a, b []byte) bool {
	if cap(a) == 0 || cap(b) == 0 {
		return false
	}
	a, b = a[:cap(a)], b[:cap(b)]
	for i := range a {
		for j := range b {
			if &a[i] == &b[j] {
				return true
			}
		}
	}
	return false
}
`

const nativeTest = `//go:build verif

package PKG

import (
	zzfmt2 "fmt"
	zzos2 "os"
	"testing"
	zztime2 "time"
)

func TestZZReplay(t *testing.T) {
	if err := zzLoadModel(zzos2.Getenv("ZZ_MODEL")); err != nil {
		t.Skip("no model: ", err)
	}
	h := zzHarnesses[zzos2.Getenv("ZZ_HARNESS")]
	if h == nil {
		t.Fatal("unknown harness ", zzos2.Getenv("ZZ_HARNESS"))
	}
	done := make(chan struct{})
	go func() {
		defer close(done)
		defer func() {
			if r := recover(); r != nil {
				if _, ok := r.(zzSkip); ok {
					zzfmt2.Println("ZZ-ASSUME-FAILED")
					return
				}
				zzFailures++
				zzfmt2.Println("ZZ-PANIC:", r)
			}
		}()
		h()
	}()
	limit := 60
	if n, ok := zzModel.Params["__native_s"]; ok && n > 0 {
		limit = n // harnesses whose native twin needs real time (quiet periods of the scan detector)
	}
	select {
	case <-done:
	case <-zztime2.After(zztime2.Duration(limit) * zztime2.Second):
		zzfmt2.Println("ZZ-HANG: harness did not finish within", limit, "s")
		t.FailNow()
	}
	if zzFailures > 0 {
		t.FailNow()
	}
}
`
