//go:build verif

package redis

import (
	"bufio"
	"bytes"
	"runtime"
)

// C01/redis-array-header: an array header announcing any count of 1..D decimal digits,
// followed by the end of the stream. The parser must fail with "eof" without first
// committing memory proportional to the announced count (an allocation of that size is
// a fatal out-of-memory error, which the per-connection recover cannot catch).
func zzH_C01_redis() {
	d := zzLen(1, zzParam("D", 9))
	digits := zzBytes(d)
	for i := 0; i < d; i++ {
		zzAssume(zzAnd(digits[i] >= '0', digits[i] <= '9'))
	}
	stream := append(append([]byte{'*'}, digits...), '\r', '\n')
	follow := zzLen(0, 1)
	if follow == 1 {
		stream = append(stream, "$4\r\nPING\r\n"...)
	}
	sc := bufio.NewScanner(bytes.NewReader(stream))
	var err error
	var m0, m1 runtime.MemStats
	if !zzSymbolic() {
		runtime.ReadMemStats(&m0)
	}
	zzUnwindIn("parseRedisData", 4, true)
	p := zzDidPanic(func() { _, err = parseRedisData(sc) })
	zzUnwindIn("", 0, false)
	_ = p
	_ = err
	if !zzSymbolic() {
		// native twin: a request of a dozen bytes must not make the parser allocate megabytes
		runtime.ReadMemStats(&m1)
		zzAssert(m1.TotalAlloc-m0.TotalAlloc < 4<<20, "allocation whose capacity is controlled by the input can exceed 1048576 elements")
	}
	zzAssert(true, "reached")
}
