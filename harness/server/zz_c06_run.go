//go:build verif

package server

import (
	"bytes"
	"context"
	"errors"
	"fmt"
	"github.com/honeytrap/honeytrap/director"
	"net"
	"strings"

	"github.com/BurntSushi/toml"
	"github.com/honeytrap/honeytrap/config"
	"github.com/honeytrap/honeytrap/event"
	"github.com/honeytrap/honeytrap/listener"
	"github.com/honeytrap/honeytrap/pushers"
	"github.com/honeytrap/honeytrap/pushers/eventbus"
	"github.com/honeytrap/honeytrap/server/profiler"
	"github.com/honeytrap/honeytrap/services"
)

// ---- configuration model: what the TOML file says ----

type zzFilterCfg struct {
	channels             []string
	categories, services []string
	hasCat, hasSvc       bool
}

type zzPortCfg struct {
	port     string
	hasPort  bool
	ports    []string
	hasPorts bool
	services []string
	noSvcKey bool // the entry has no services key at all
}

type zzRunCfg struct {
	channelNames []string // all of type "zzrec"
	serviceNames []string // all of type "zzsvc"
	filters      []zzFilterCfg
	ports        []zzPortCfg
	directors    []zzDirCfg // all of type "zzdir"
	serviceDirs  []string   // parallel to serviceNames: the director each service names ("" = none)
}

type zzDirCfg struct{ name, host string }

// zzDir: a recording director type; its host is what its own configuration section says.
type zzDir struct {
	Host string `toml:"host"`
}

func (d *zzDir) Dial(c net.Conn) (net.Conn, error) { return nil, errors.New("zz: no dial") }

// zzLabel: an undecoded table that the decoder model can recognise (label kept in the
// primitive's first, unexported field).
func zzLabel(l string) toml.Primitive {
	var p toml.Primitive
	zzSetHidden(&p, 0, l)
	return p
}

func zzLabelOf(p toml.Primitive) string {
	l, _ := zzGetHidden(&p, 0).(string)
	return l
}

func zzLabelIdx(l, prefix string) int {
	if len(l) == len(prefix)+1 && l[:len(prefix)] == prefix {
		return int(l[len(prefix)] - '0')
	}
	return -1
}

// decode queues consumed by the PrimitiveDecode model in the order Run decodes
var (
	zzCfg       *zzRunCfg
	zzChanIdx   int
	zzFiltIdx   int
	zzSvcIdx    int
	zzPortIdx   int
	zzTypeCalls int
)

// model of toml's MetaData.PrimitiveDecode for the anonymous structs Run decodes into:
// keys present in the table are assigned, absent keys leave the field untouched
// (BurntSushi/toml contract). The native twin parses real TOML text.
func zzStubPrimitiveDecode(md *toml.MetaData, prim toml.Primitive, v interface{}) error {
	switch x := v.(type) {
	case *struct {
		Type string `toml:"type"`
	}:
		// channels first (one per channel), then the directors, then the listener
		if zzLabelIdx(zzLabelOf(prim), "dir:") >= 0 {
			x.Type = "zzdir"
		} else if zzChanIdx < len(zzCfg.channelNames) {
			zzChanIdx++
			x.Type = "zzrec"
		} else {
			x.Type = "zzlistener"
		}
	case *struct {
		Type     string `toml:"type"`
		Director string `toml:"director"`
		Port     string `toml:"port"`
	}:
		zzSvcIdx++
		x.Type = "zzsvc"
		if i := zzLabelIdx(zzLabelOf(prim), "svc:"); i >= 0 && i < len(zzCfg.serviceDirs) && zzCfg.serviceDirs[i] != "" {
			x.Director = zzCfg.serviceDirs[i]
		}
	case *zzDir:
		// a director instance decodes its own section
		if i := zzLabelIdx(zzLabelOf(prim), "dir:"); i >= 0 && i < len(zzCfg.directors) {
			x.Host = zzCfg.directors[i].host
		} else {
			return errors.New("zz: PrimitiveDecode model: director decoded from a table that is not a director section")
		}
	case *zzRunSvc:
		if i := zzLabelIdx(zzLabelOf(prim), "svc:"); i >= 0 && i < len(zzCfg.serviceNames) {
			x.Name = zzCfg.serviceNames[i]
		}
	default:
		// [[filter]] and [[port]] entries: whatever (named or anonymous) struct Run decodes them
		// into, the fields are found by their toml tags; keys absent from the entry are not
		// assigned (so a decode target hoisted out of the loop keeps the previous entry's value)
		if tags := zzAssignByTag(v, "toml", nil); tags == "channel,services,categories" {
			f := zzCfg.filters[zzFiltIdx]
			zzFiltIdx++
			kv := map[string]interface{}{"channel": f.channels}
			if f.hasCat {
				kv["categories"] = f.categories
			}
			if f.hasSvc {
				kv["services"] = f.services
			}
			zzAssignByTag(v, "toml", kv)
			return nil
		}
		p := zzCfg.ports[zzPortIdx]
		kv := map[string]interface{}{}
		if p.hasPort {
			kv["port"] = p.port
		}
		if p.hasPorts {
			kv["ports"] = p.ports
		}
		if !p.noSvcKey {
			kv["services"] = p.services
		}
		if tags := zzAssignByTag(v, "toml", kv); tags != "port,ports,services" {
			return errors.New("zz: PrimitiveDecode model: unexpected target " + tags)
		}
		zzPortIdx++
	}
	return nil
}

// ---- recording channel / listener / service types, registered like real ones ----

type zzRunChan struct {
	id  int
	evs []event.Event
}

func (c *zzRunChan) Send(e event.Event) { c.evs = append(c.evs, e) }

var zzRunChans []*zzRunChan

type zzRunListener struct{ addrs []net.Addr }

func (l *zzRunListener) Start(ctx context.Context) error {
	return errors.New("zz: listener does not start")
}
func (l *zzRunListener) Accept() (net.Conn, error) { return nil, errors.New("closed") }
func (l *zzRunListener) AddAddress(a net.Addr)     { l.addrs = append(l.addrs, a) }

var zzRunL *zzRunListener

type zzRunSvc struct {
	id   int
	Name string `toml:"zzname"` // from its own configuration section
	dir  director.Director
}

func (s *zzRunSvc) SetDirector(d director.Director) { s.dir = d }

var zzRunSvcList []*zzRunSvc

func (s *zzRunSvc) Handle(ctx context.Context, c net.Conn) error { return nil }
func (s *zzRunSvc) SetChannel(pushers.Channel)                   {}

var zzRunSvcs int

func zzRegisterStubs() {
	pushers.Register("zzrec", func(opts ...func(pushers.Channel) error) (pushers.Channel, error) {
		c := &zzRunChan{id: len(zzRunChans)}
		zzRunChans = append(zzRunChans, c)
		return c, nil
	})
	listener.Register("zzlistener", func(opts ...func(listener.Listener) error) (listener.Listener, error) {
		zzRunL = &zzRunListener{}
		return zzRunL, nil
	})
	services.Register("zzsvc", func(opts ...services.ServicerFunc) services.Servicer {
		zzRunSvcs++
		s := &zzRunSvc{id: zzRunSvcs}
		for _, o := range opts {
			o(s)
		}
		zzRunSvcList = append(zzRunSvcList, s)
		return s
	})
	director.Register("zzdir", func(opts ...func(director.Director) error) (director.Director, error) {
		d := &zzDir{}
		for _, o := range opts {
			if err := o(d); err != nil {
				return nil, err
			}
		}
		return d, nil
	})
}

// zzToml renders the configuration as real TOML (native twin).
func zzToml(c *zzRunCfg) string {
	q := func(xs []string) string {
		var qs []string
		for _, x := range xs {
			qs = append(qs, fmt.Sprintf("%q", x))
		}
		return "[" + strings.Join(qs, ", ") + "]"
	}
	var b bytes.Buffer
	b.WriteString("[listener]\ntype=\"zzlistener\"\n")
	for _, n := range c.channelNames {
		fmt.Fprintf(&b, "[channel.%s]\ntype=\"zzrec\"\n", n)
	}
	for i, n := range c.serviceNames {
		fmt.Fprintf(&b, "[service.%s]\ntype=\"zzsvc\"\nzzname=%q\n", n, n)
		if i < len(c.serviceDirs) && c.serviceDirs[i] != "" {
			fmt.Fprintf(&b, "director=%q\n", c.serviceDirs[i])
		}
	}
	for _, d := range c.directors {
		fmt.Fprintf(&b, "[director.%s]\ntype=\"zzdir\"\nhost=%q\n", d.name, d.host)
	}
	for _, f := range c.filters {
		fmt.Fprintf(&b, "[[filter]]\nchannel=%s\n", q(f.channels))
		if f.hasCat {
			fmt.Fprintf(&b, "categories=%s\n", q(f.categories))
		}
		if f.hasSvc {
			fmt.Fprintf(&b, "services=%s\n", q(f.services))
		}
	}
	for _, p := range c.ports {
		b.WriteString("[[port]]\n")
		if p.hasPort {
			fmt.Fprintf(&b, "port=%q\n", p.port)
		}
		if p.hasPorts {
			fmt.Fprintf(&b, "ports=%s\n", q(p.ports))
		}
		if !p.noSvcKey {
			fmt.Fprintf(&b, "services=%s\n", q(p.services))
		}
	}
	return b.String()
}

// zzRun executes the real Run on the configuration until the (stub) listener refuses to start.
func zzRun(c *zzRunCfg) *Honeytrap {
	zzCfg, zzChanIdx, zzFiltIdx, zzSvcIdx, zzPortIdx = c, 0, 0, 0, 0
	zzRunChans, zzRunL, zzRunSvcs, zzRunSvcList = nil, nil, 0, nil
	zzRegisterStubs()
	conf := &config.Config{}
	if zzSymbolic() {
		conf.Channels = map[string]toml.Primitive{}
		for _, n := range c.channelNames {
			conf.Channels[n] = toml.Primitive{}
		}
		conf.Services = map[string]toml.Primitive{}
		for i, n := range c.serviceNames {
			conf.Services[n] = zzLabel("svc:" + string(rune('0'+i)))
		}
		conf.Directors = map[string]toml.Primitive{}
		for i, d := range c.directors {
			conf.Directors[d.name] = zzLabel("dir:" + string(rune('0'+i)))
		}
		conf.Filters = make([]toml.Primitive, len(c.filters))
		conf.Ports = make([]toml.Primitive, len(c.ports))
	} else {
		md, err := toml.Decode(zzToml(c), conf)
		if err != nil {
			panic(err)
		}
		conf.MetaData = md
	}
	hc := &Honeytrap{config: conf, bus: eventbus.New(), profiler: profiler.Dummy(), token: "tok-run"}
	zzTimers(0)
	hc.Run(context.Background())
	return hc
}

var zzRunExprs = []string{".*", "^ssh$", "^$"}
var zzRunVals = []string{"ssh", "ftp", ""}

// C06/run-wiring: the real Run builds the channel/filter chain from a configuration with
// 2 channels and F filters; then events go through the real bus.
func zzH_C06_run() {
	c := &zzRunCfg{channelNames: []string{"c0", "c1"}}
	nf := zzLen(1, zzParam("F", 2))
	for f := 0; f < nf; f++ {
		var fc zzFilterCfg
		switch zzLen(0, 3) {
		case 0:
			fc.channels = []string{"c0"}
		case 1:
			fc.channels = []string{"c1"}
		case 2:
			fc.channels = []string{"c0", "c1"}
		case 3:
			fc.channels = []string{"nosuch", "c1"}
		}
		if zzLen(0, 1) == 1 {
			fc.hasCat = true
			fc.categories = []string{zzRunExprs[zzLen(0, len(zzRunExprs)-1)]}
		}
		if zzLen(0, 1) == 1 {
			fc.hasSvc = true
			fc.services = []string{zzRunExprs[zzLen(0, len(zzRunExprs)-1)]}
		}
		c.filters = append(c.filters, fc)
	}
	hc := zzRun(c)
	zzAssert(len(zzRunChans) == 2, "every configured channel is created once")
	if len(zzRunChans) != 2 {
		return
	}
	// channel ids follow creation order; map names by the order Run created them (map order):
	// both channels are of the same type, so identify them through a marker filter-free probe:
	// chanByName is reconstructed from the reference below by trying both assignments.
	cat := zzRunVals[zzLen(0, len(zzRunVals)-1)]
	svc := zzRunVals[zzLen(0, len(zzRunVals)-1)]
	hasCat := zzLen(0, 1) == 1
	opts := []event.Option{event.Custom("seq", 1)}
	if hasCat {
		opts = append(opts, event.Category(cat))
	} else {
		cat = ""
	}
	opts = append(opts, event.Service(svc))
	hc.bus.Send(event.New(opts...))

	match := func(exprs []string, has bool, val string) bool {
		if !has || len(exprs) == 0 {
			return true
		}
		for _, x := range exprs {
			switch x {
			case ".*":
				return true
			case "^ssh$":
				if val == "ssh" {
					return true
				}
			case "^$":
				if val == "" {
					return true
				}
			}
		}
		return false
	}
	want := map[string]int{"c0": 0, "c1": 0}
	for _, f := range c.filters {
		for _, n := range f.channels {
			if _, ok := want[n]; ok && match(f.categories, f.hasCat, cat) && match(f.services, f.hasSvc, svc) {
				want[n]++
			}
		}
	}
	got0, got1 := len(zzRunChans[0].evs), len(zzRunChans[1].evs)
	// Run creates the channels in map order, which is unspecified: accept either naming
	okA := got0 == want["c0"] && got1 == want["c1"]
	okB := got0 == want["c1"] && got1 == want["c0"]
	zzAssert(okA || okB, "each channel receives one delivery per filter that names it and admits the event (an absent list admits everything), and no other")
	for _, ch := range zzRunChans {
		for _, ev := range ch.evs {
			zzAssert(ev.Get("token") == "tok-run", "delivered events carry the sensor token")
		}
	}
}

var zzPortStrs = []struct {
	s  string
	ok bool
}{{"tcp/8080", true}, {"udp/8080", true}, {"tcp/127.0.0.1:8080", true}, {"tcp:8080", false}, {"tcp/65536", false}, {"tcp/8081", true}, {"icmp/8080", false}, {"tcp/", false}}

// C19/run-ports: the real Run walks P [[port]] entries (port and/or ports, service lists over
// defined / undefined names); the listener is asked for exactly the reference set, first wins.
func zzH_C19_runports() {
	c := &zzRunCfg{channelNames: nil, serviceNames: []string{"s0", "s1"}}
	np := zzLen(1, zzParam("P", 2))
	for i := 0; i < np; i++ {
		var pc zzPortCfg
		form := zzLen(0, 2)
		if form == 0 || form == 2 {
			pc.hasPort = true
			pc.port = zzPortStrs[zzLen(0, zzParam("S", 5))].s
		}
		if form == 1 || form == 2 {
			pc.hasPorts = true
			pc.ports = []string{zzPortStrs[zzLen(0, zzParam("S", 5))].s}
			if form == 1 && zzLen(0, 1) == 1 {
				pc.ports = append(pc.ports, zzPortStrs[zzLen(0, 1)].s)
			}
		}
		switch zzLen(0, 3) {
		case 0:
			pc.services = []string{"s0"}
		case 1:
			pc.services = []string{"nosuch", "s1"}
		case 2:
			pc.services = []string{"nosuch"}
		case 3:
			pc.services, pc.noSvcKey = nil, true
		}
		c.ports = append(c.ports, pc)
	}
	hc := zzRun(c)
	zzAssert(zzRunL != nil, "the listener is created")
	if zzRunL == nil {
		return
	}
	// reference
	type ent struct {
		addr net.Addr
		nsvc int
	}
	var want []ent
	for _, pc := range c.ports {
		var strs []string
		if pc.hasPorts {
			strs = append(strs, pc.ports...)
		}
		if pc.hasPort {
			strs = append(strs, pc.port)
		}
		n := 0
		for _, s := range pc.services {
			if s == "s0" || s == "s1" {
				n++
			}
		}
		for _, s := range strs {
			ok := false
			for _, t := range zzPortStrs {
				if t.s == s {
					ok = t.ok
				}
			}
			if !ok || n == 0 {
				continue
			}
			addr, _, _, err := ToAddr(s)
			if err != nil || addr == nil {
				zzAssert(false, "a well-formed port string parses")
				continue
			}
			dup := false
			for _, w := range want {
				if compareAddr(w.addr, addr) {
					dup = true
				}
			}
			if !dup {
				want = append(want, ent{addr, n})
			}
		}
	}
	same := len(zzRunL.addrs) == len(want)
	for i := 0; same && i < len(want); i++ {
		same = zzRunL.addrs[i].Network() == want[i].addr.Network() && zzRunL.addrs[i].String() == want[i].addr.String()
	}
	zzAssert(same, "the listener is asked to listen on exactly the well-formed entries that name a defined service, first definition wins, in order")
	zzAssert(len(hc.ports) == len(want), "the dispatch table has one entry per listened address")
	for _, w := range want {
		found := 0
		for k, v := range hc.ports {
			if k.Network() == w.addr.Network() && k.String() == w.addr.String() {
				found = len(v)
			}
		}
		zzAssert(found == w.nsvc, "a listened entry dispatches to exactly its defined services")
	}
}

// C15/run-directors: the real Run wires services to directors. D director sections (each
// with its own host) and 2 services, each naming one of the directors or none. Every
// service must get the director built from the section it names - i.e. a proxy dials the
// backend configured for it.
func zzH_C15_rundirectors() {
	nd := zzLen(1, zzParam("D", 3))
	c := &zzRunCfg{serviceNames: []string{"s0", "s1"}}
	for i := 0; i < nd; i++ {
		c.directors = append(c.directors, zzDirCfg{name: "d" + string(rune('0'+i)), host: "host" + string(rune('0'+i)) + ":22"})
	}
	pick := func() string {
		k := zzLen(0, nd)
		if k == nd {
			return ""
		}
		return c.directors[k].name
	}
	c.serviceDirs = []string{pick(), pick()}
	c.ports = []zzPortCfg{{hasPort: true, port: "tcp/8022", services: []string{"s0", "s1"}}}
	zzRun(c)
	zzAssert(len(zzRunSvcList) == 2, "both services are created")
	for _, s := range zzRunSvcList {
		want := ""
		for i, n := range c.serviceNames {
			if n == s.Name {
				want = c.serviceDirs[i]
			}
		}
		if want == "" {
			zzAssert(s.dir == nil, "a service that names no director gets none")
			continue
		}
		d, ok := s.dir.(*zzDir)
		zzAssert(ok && d != nil, "a service that names a director gets one")
		if ok && d != nil {
			host := ""
			for _, dc := range c.directors {
				if dc.name == want {
					host = dc.host
				}
			}
			zzAssert(d.Host == host, "a service's director is the one built from the section the service names")
		}
	}
}
