package sx

import (
	"fmt"
	"go/token"
	"go/types"
	"os"
	"sort"
	"strings"
	"sync"
	"time"

	"gosx/smt"

	"golang.org/x/tools/go/ssa"
)

// Config describes one harness run.
type Config struct {
	Entry       *ssa.Function
	Params      map[string]int    // zzParam values
	Replace     map[string]string // qualified callee -> harness function name (same package as Entry)
	InitPkgs    []string          // package paths whose init is executed (in order); others lazily/never
	OpaquePkgs  []string          // package path prefixes whose functions are no-ops returning zero
	Unwind      int               // per-frame block visit bound
	MaxSteps    int               // instructions per path
	MaxPaths    int
	MaxDepth    int
	TimeoutMs   int // solver timeout
	Deadline    time.Time
	UnwindIsBug bool    // reaching the unwind bound is the violation (derived-bound harnesses)
	Known       []Known // known-finding predicates (messages)
	Workers     int
	ArithHint   bool
	Verbose     bool
}

type Known struct {
	ID    string
	Match string // substring of the assertion message
}

// Finding is a failed obligation with a model.
type Finding struct {
	Kind      string // assert | panic | unwind | blocked | recursion
	Msg       string
	Pos       string
	Model     []NondetVal
	Decisions []int
	Stack     []string
}

type NondetVal struct {
	Name string `json:"name"`
	Kind string `json:"kind"` // u8,u16,u32,u64,bool,len
	W    int    `json:"w"`
	Val  uint64 `json:"val"`
	Site string `json:"site,omitempty"`
	Env  bool   `json:"env,omitempty"`
}

// Report is the outcome of exploring one harness.
type Report struct {
	Paths                 int
	PathsCompleted        int
	PathsInfeasible       int
	PathsAsserting        int // distinct feasible paths that reached >= 1 assertion
	Obligations           int // assertion queries discharged
	ObligationsUnsat      int
	Forks                 int
	Steps                 int64
	MaxUnwindSeen         int
	Findings              []Finding
	Inconclusive          []string // reasons (unsupported, timeouts, budgets)
	Witnesses             int      // reachability witnesses (assert sites reached on a feasible path)
	AssertSites           map[string]int
	Assumes               map[string]int
	FuncsReal             map[string]int
	FuncsReplaced         map[string]int
	FuncsIntrinsic        map[string]int
	FuncsOpaque           map[string]int
	Solver                smt.Stats
	Samples               []map[string]interface{}
	Wall                  time.Duration
	RecoveredPanics       int
	BranchesKeptOnUnknown int
	ForkSites             map[string]int
	Concretised           map[string]int // large-array index sites where untouched cells were represented by one member
}

func newReport() *Report {
	return &Report{AssertSites: map[string]int{}, Assumes: map[string]int{}, FuncsReal: map[string]int{}, FuncsReplaced: map[string]int{}, FuncsIntrinsic: map[string]int{}, FuncsOpaque: map[string]int{}}
}

func (r *Report) merge(o *Report) {
	r.Paths += o.Paths
	r.PathsCompleted += o.PathsCompleted
	r.PathsInfeasible += o.PathsInfeasible
	r.PathsAsserting += o.PathsAsserting
	r.Obligations += o.Obligations
	r.ObligationsUnsat += o.ObligationsUnsat
	r.Forks += o.Forks
	r.Steps += o.Steps
	r.RecoveredPanics += o.RecoveredPanics
	r.BranchesKeptOnUnknown += o.BranchesKeptOnUnknown
	for k, v := range o.Concretised {
		if r.Concretised == nil {
			r.Concretised = map[string]int{}
		}
		r.Concretised[k] += v
	}
	for k, v := range o.ForkSites {
		if r.ForkSites == nil {
			r.ForkSites = map[string]int{}
		}
		r.ForkSites[k] += v
	}
	if o.MaxUnwindSeen > r.MaxUnwindSeen {
		r.MaxUnwindSeen = o.MaxUnwindSeen
	}
	r.Findings = append(r.Findings, o.Findings...)
	r.Inconclusive = append(r.Inconclusive, o.Inconclusive...)
	r.Witnesses += o.Witnesses
	for k, v := range o.AssertSites {
		r.AssertSites[k] += v
	}
	for k, v := range o.Assumes {
		r.Assumes[k] += v
	}
	for k, v := range o.FuncsReal {
		r.FuncsReal[k] += v
	}
	for k, v := range o.FuncsReplaced {
		r.FuncsReplaced[k] += v
	}
	for k, v := range o.FuncsIntrinsic {
		r.FuncsIntrinsic[k] += v
	}
	for k, v := range o.FuncsOpaque {
		r.FuncsOpaque[k] += v
	}
	r.Solver.Merge(&o.Solver)
	if len(r.Samples) < 6 {
		r.Samples = append(r.Samples, o.Samples...)
		if len(r.Samples) > 6 {
			r.Samples = r.Samples[:6]
		}
	}
}

// path-terminating signals (Go panics caught by runPath)
type abortPath struct {
	kind string // infeasible | unsupported | budget | done | stop
	msg  string
}

// goPanic is a Go-level panic propagating through interpreted frames.
type goPanic struct {
	pos   string
	val   Value
	msg   string // for runtime errors
	rt    bool
	stack []string
}

// Engine is one worker: own term context, solver and heap.
type Engine struct {
	prog *ssa.Program
	cfg  *Config
	ctx  *smt.Ctx
	sol  *smt.Solver
	rep  *Report

	// heap
	nextObj  int
	epoch    int
	undo     []func()
	globals  map[*ssa.Global]*Obj
	initDone map[*ssa.Package]bool

	// per path
	pc           []*smt.Term
	prefix       []int
	taken        []int
	pos          int
	nondets      []NondetVal
	ndTerms      []*smt.Term
	steps        int
	depth        int
	stack        []*frame
	asserted     bool
	pathFind     int
	work         *workQueue
	extraCtx     map[string]interface{} // per-path scratch for intrinsic models (fs, clock)
	goroutines   []*gor
	cur          *gor
	frozen       bool
	replaceFn    map[string]*ssa.Function
	fnInfoMu     *sync.Mutex
	lastModel    map[string]uint64
	lastModelPC  int
	curPosTok    token.Pos
	deferDepth   int
	tolerantInit bool
	uniqueTab    []uniqueEnt
	killing      bool
	pendingAbort *abortPath
	deadlock     bool
	schedForks   int
}

// curPos renders the current source position.
func (e *Engine) curPosStr() string {
	if !e.curPosTok.IsValid() {
		return "?"
	}
	p := e.prog.Fset.Position(e.curPosTok)
	f := p.Filename
	if i := strings.LastIndexByte(f, '/'); i >= 0 {
		if j := strings.LastIndexByte(f[:i], '/'); j >= 0 {
			f = f[j+1:]
		}
	}
	return fmt.Sprintf("%s:%d", f, p.Line)
}

type workQueue struct {
	mu      sync.Mutex
	items   [][]int
	active  int
	cond    *sync.Cond
	stopped bool
	total   int
}

func newWorkQueue() *workQueue {
	w := &workQueue{}
	w.cond = sync.NewCond(&w.mu)
	return w
}

func (w *workQueue) push(p []int) {
	w.mu.Lock()
	w.items = append(w.items, p)
	w.total++
	w.mu.Unlock()
	w.cond.Signal()
}

func (w *workQueue) pop() ([]int, bool) {
	w.mu.Lock()
	defer w.mu.Unlock()
	for len(w.items) == 0 {
		if w.active == 0 || w.stopped {
			w.cond.Broadcast()
			return nil, false
		}
		w.cond.Wait()
	}
	if w.stopped {
		return nil, false
	}
	p := w.items[len(w.items)-1]
	w.items = w.items[:len(w.items)-1]
	w.active++
	return p, true
}

func (w *workQueue) done() {
	w.mu.Lock()
	w.active--
	if w.active == 0 && len(w.items) == 0 {
		w.cond.Broadcast()
	}
	w.mu.Unlock()
}

func (w *workQueue) stop() {
	w.mu.Lock()
	w.stopped = true
	w.mu.Unlock()
	w.cond.Broadcast()
}

// Explore runs the harness over all paths with cfg.Workers workers.
func Explore(prog *ssa.Program, cfg *Config) *Report {
	t0 := time.Now()
	if cfg.Workers <= 0 {
		cfg.Workers = 8
	}
	if cfg.Unwind == 0 {
		cfg.Unwind = 300
	}
	if cfg.MaxSteps == 0 {
		cfg.MaxSteps = 3000000
	}
	if cfg.MaxPaths == 0 {
		cfg.MaxPaths = 200000
	}
	if cfg.MaxDepth == 0 {
		cfg.MaxDepth = 150
	}
	if cfg.TimeoutMs == 0 {
		cfg.TimeoutMs = 20000
	}
	wq := newWorkQueue()
	wq.push([]int{})
	total := newReport()
	var mu sync.Mutex
	var wg sync.WaitGroup
	for i := 0; i < cfg.Workers; i++ {
		wg.Add(1)
		go func(id int) {
			defer wg.Done()
			e, err := newEngine(prog, cfg, wq)
			if err != nil {
				mu.Lock()
				total.Inconclusive = append(total.Inconclusive, "engine start: "+err.Error())
				mu.Unlock()
				wq.stop()
				return
			}
			defer e.sol.Close()
			for {
				p, ok := wq.pop()
				if !ok {
					break
				}
				e.runPath(p)
				wq.done()
				if e.rep.Paths%50 == 0 {
					wq.mu.Lock()
					tot := wq.total
					wq.mu.Unlock()
					if tot > cfg.MaxPaths {
						e.rep.Inconclusive = append(e.rep.Inconclusive, fmt.Sprintf("path budget %d exceeded", cfg.MaxPaths))
						wq.stop()
					}
					if !cfg.Deadline.IsZero() && time.Now().After(cfg.Deadline) {
						e.rep.Inconclusive = append(e.rep.Inconclusive, "wall-clock budget exceeded")
						wq.stop()
					}
				}
			}
			e.rep.Solver = e.sol.Stats
			mu.Lock()
			total.merge(e.rep)
			mu.Unlock()
		}(i)
	}
	wg.Wait()
	total.Wall = time.Since(t0)
	// de-duplicate inconclusive reasons
	seen := map[string]bool{}
	var inc []string
	for _, s := range total.Inconclusive {
		if !seen[s] {
			seen[s] = true
			inc = append(inc, s)
		}
	}
	sort.Strings(inc)
	total.Inconclusive = inc
	return total
}

func newEngine(prog *ssa.Program, cfg *Config, wq *workQueue) (*Engine, error) {
	e := &Engine{prog: prog, cfg: cfg, ctx: smt.NewCtx(), rep: newReport(), work: wq,
		globals: map[*ssa.Global]*Obj{}, initDone: map[*ssa.Package]bool{}, replaceFn: map[string]*ssa.Function{}}
	sol, err := smt.NewSolver(e.ctx, cfg.TimeoutMs)
	if err != nil {
		return nil, err
	}
	sol.ArithHint = cfg.ArithHint
	e.sol = sol
	for from, to := range cfg.Replace {
		fn := cfg.Entry.Pkg.Func(to)
		if fn == nil {
			return nil, fmt.Errorf("replacement function %s not found in %s", to, cfg.Entry.Pkg.Pkg.Path())
		}
		e.replaceFn[from] = fn
	}
	// run whitelisted package inits once, concretely, then freeze
	e.epoch = 0
	var initErr error
	func() {
		defer func() {
			if r := recover(); r != nil {
				initErr = fmt.Errorf("init: %v", fmtPanic(r))
			}
		}()
		e.extraCtx = map[string]interface{}{}
		e.cur = &gor{id: 0}
		// standard-library packages first (tolerant: an initialiser the engine cannot
		// execute leaves its variable zero), then the harness' own list (strict)
		all := append([]string{}, stdInit...)
		all = append(all, cfg.InitPkgs...)
		cfg2 := *cfg
		cfg2.InitPkgs = all
		e.cfg = &cfg2
		for _, p := range stdInit {
			if pkg := e.findPkg(p); pkg != nil {
				e.tolerantInit = true
				e.runInit(pkg)
				e.tolerantInit = false
			}
		}
		for _, p := range cfg.InitPkgs {
			pkg := e.findPkg(p)
			if pkg == nil {
				panic("init package not found: " + p)
			}
			e.runInit(pkg)
		}
		// the harness' own package (its package-level tables): tolerant
		if cfg.Entry.Pkg != nil && !e.initDone[cfg.Entry.Pkg] {
			cfg2.InitPkgs = append(cfg2.InitPkgs, cfg.Entry.Pkg.Pkg.Path())
			e.tolerantInit = true
			e.runInit(cfg.Entry.Pkg)
			e.tolerantInit = false
		}
	}()
	if initErr != nil {
		return nil, initErr
	}
	e.frozen = true
	e.undo = nil
	return e, nil
}

// stdInit: library packages whose package initialiser is executed once per worker.
var stdInit = []string{
	"internal/oserror", "unicode/utf8", "unicode", "math/bits", "strconv", "io", "io/fs", "strings", "bytes", "bufio",
	"encoding/binary", "encoding/hex", "encoding/base64", "sort", "path", "path/filepath", "syscall", "time", "os",
	"net/netip", "net", "context", "net/textproto", "crypto/md5", "hash/crc32", "text/tabwriter",
}

func fmtPanic(r interface{}) string {
	switch x := r.(type) {
	case abortPath:
		return x.kind + ": " + x.msg
	case *goPanic:
		return "go panic: " + x.msg + " @ " + strings.Join(x.stack, " <- ")
	}
	return fmt.Sprint(r)
}

func (e *Engine) findPkg(path string) *ssa.Package {
	for _, p := range e.prog.AllPackages() {
		if p.Pkg.Path() == path {
			return p
		}
	}
	return nil
}

func (e *Engine) runInit(pkg *ssa.Package) {
	if e.initDone[pkg] {
		return
	}
	e.initDone[pkg] = true
	fn := pkg.Func("init")
	if fn == nil {
		return
	}
	e.callFunction(fn, nil, nil)
}

func (e *Engine) wantInit(path string) bool {
	for _, p := range e.cfg.InitPkgs {
		if p == path {
			return true
		}
	}
	return false
}

func (e *Engine) unsupported(format string, a ...interface{}) {
	panic(abortPath{kind: "unsupported", msg: fmt.Sprintf(format, a...) + " at " + e.where()})
}

func (e *Engine) where() string {
	if len(e.stack) == 0 {
		return "?"
	}
	var parts []string
	for i := len(e.stack) - 1; i >= 0 && len(parts) < 4; i-- {
		parts = append(parts, e.stack[i].fn.String())
	}
	return e.curPosStr() + " in " + strings.Join(parts, " <- ")
}

func (e *Engine) stackNames() []string {
	var parts []string
	for i := len(e.stack) - 1; i >= 0 && len(parts) < 12; i-- {
		parts = append(parts, e.stack[i].fn.String())
	}
	return parts
}

// runPath executes the harness once, following the decision prefix and then the
// first feasible alternative at every new choice point.
func (e *Engine) runPath(prefix []int) {
	e.epoch++
	e.pc = e.pc[:0]
	e.prefix = prefix
	e.taken = e.taken[:0]
	e.pos = 0
	e.nondets = e.nondets[:0]
	e.ndTerms = e.ndTerms[:0]
	e.steps = 0
	e.depth = 0
	e.stack = e.stack[:0]
	e.asserted = false
	e.extraCtx = map[string]interface{}{}
	e.goroutines = nil
	e.lastModel = nil
	e.rep.Paths++
	main := &gor{id: 0, resume: make(chan struct{})}
	e.cur = main
	e.goroutines = []*gor{main}

	defer func() {
		// reset frozen heap
		for i := len(e.undo) - 1; i >= 0; i-- {
			e.undo[i]()
		}
		e.undo = e.undo[:0]
		e.killGoroutines()
		e.rep.Steps += int64(e.steps)
	}()
	defer func() {
		if r := recover(); r != nil {
			switch x := r.(type) {
			case abortPath:
				switch x.kind {
				case "infeasible":
					e.rep.PathsInfeasible++
				case "stop":
					e.rep.PathsCompleted++
				default:
					e.rep.Inconclusive = append(e.rep.Inconclusive, x.kind+": "+x.msg)
				}
			case *goPanic:
				// a Go panic escaped the harness entry: that is a violation
				e.addFinding("panic", "panic escaped: "+x.msg, x.stack)
				e.rep.PathsCompleted++
			default:
				// an interpreter-internal failure (unmodelled corner of the library code being
				// executed, e.g. reflect on a value kind the engine does not represent): the path
				// is inconclusive, the checker itself must not die
				e.rep.Inconclusive = append(e.rep.Inconclusive, fmt.Sprintf("unsupported: interpreter failure at %s: %v", e.where(), r))
			}
		}
		if e.asserted {
			e.rep.PathsAsserting++
		}
	}()
	e.callFunction(e.cfg.Entry, nil, nil)
	e.afterMain()
	e.rep.PathsCompleted++
	if len(e.rep.Samples) < 3 && e.asserted {
		e.rep.Samples = append(e.rep.Samples, map[string]interface{}{
			"path_decisions":      append([]int{}, e.taken...),
			"path_condition_size": len(e.pc),
			"nondets":             len(e.nondets),
			"last_pc_conjunct":    lastPC(e.pc),
		})
	}
}

func lastPC(pc []*smt.Term) string {
	if len(pc) == 0 {
		return "true"
	}
	return pc[len(pc)-1].String()
}

// choose selects one of the alternatives whose condition is feasible under the
// current path condition. exhaustive: the disjunction of conds is valid.
var traceSlow = os.Getenv("GOSX_TRACE_SLOW") != ""

func (e *Engine) choose(conds []*smt.Term, exhaustive bool) int {
	// trivial cases without consuming a decision slot
	nFalse, trueIdx, nonFalse := 0, -1, -1
	for i, c := range conds {
		if c.IsFalse() {
			nFalse++
		} else {
			if nonFalse < 0 {
				nonFalse = i
			}
			if c.IsTrue() && trueIdx < 0 {
				trueIdx = i
			}
		}
	}
	if nFalse == len(conds) {
		panic(abortPath{kind: "infeasible"})
	}
	if trueIdx >= 0 && trueIdx == nonFalse {
		return trueIdx
	}
	if nFalse == len(conds)-1 && exhaustive {
		// only one alternative is syntactically possible
		e.pc = append(e.pc, conds[nonFalse])
		return nonFalse
	}
	if e.pos < len(e.prefix) {
		idx := e.prefix[e.pos]
		e.pos++
		e.taken = append(e.taken, idx)
		if idx >= len(conds) {
			panic(abortPath{kind: "unsupported", msg: "non-deterministic replay (decision out of range)"})
		}
		if !conds[idx].IsTrue() {
			e.pc = append(e.pc, conds[idx])
		}
		return idx
	}
	e.pos++
	var feas []int
	for i, c := range conds {
		if c.IsFalse() {
			continue
		}
		if exhaustive && len(feas) == 0 && i == lastNonFalse(conds) {
			feas = append(feas, i) // everything else infeasible: this one must hold
			continue
		}
		if c.IsTrue() {
			feas = append(feas, i)
			continue
		}
		if e.lastModel != nil && len(feas) == 0 {
			if e.ctx.Eval(c, e.lastModel, map[int]uint64{}) == 1 && e.modelOK() {
				feas = append(feas, i)
				continue
			}
		}
		t0 := time.Now()
		r, m := e.sol.CheckT(e.pc, c, e.ndTerms, true, 3000)
		if traceSlow && time.Since(t0) > 2*time.Second {
			fmt.Fprintf(os.Stderr, "slow probe %.1fs at %s\n", time.Since(t0).Seconds(), e.where())
		}
		switch r {
		case smt.Sat:
			feas = append(feas, i)
			if m != nil {
				e.lastModel = m
				e.lastModelPC = len(e.pc)
			}
		case smt.Unknown:
			// retry with the full timeout and the portfolio before giving up
			r2, m2 := e.sol.Check(e.pc, c, e.ndTerms, true)
			if r2 == smt.Unsat {
				continue
			}
			if r2 == smt.Sat {
				feas = append(feas, i)
				if m2 != nil {
					e.lastModel = m2
				}
				continue
			}
			// keep the branch: exploring a possibly infeasible path is sound for "holds"
			// verdicts (its obligations are still discharged) and a counterexample found on
			// it is only reported after native replay
			e.rep.BranchesKeptOnUnknown++
			feas = append(feas, i)
		}
	}
	if len(feas) == 0 {
		panic(abortPath{kind: "infeasible"})
	}
	if len(feas) > 1 {
		if e.cfg.Verbose {
			if e.rep.ForkSites == nil {
				e.rep.ForkSites = map[string]int{}
			}
			e.rep.ForkSites[e.where()] += len(feas) - 1
		}
		e.rep.Forks += len(feas) - 1
		base := append([]int{}, e.taken...)
		for j := len(feas) - 1; j >= 1; j-- {
			p := append(append([]int{}, base...), feas[j])
			e.work.push(p)
		}
	}
	idx := feas[0]
	e.taken = append(e.taken, idx)
	if !conds[idx].IsTrue() {
		e.pc = append(e.pc, conds[idx])
	}
	return idx
}

func lastNonFalse(conds []*smt.Term) int {
	for i := len(conds) - 1; i >= 0; i-- {
		if !conds[i].IsFalse() {
			return i
		}
	}
	return -1
}

// modelOK: the cached model satisfies the whole current pc (checked by evaluation).
func (e *Engine) modelOK() bool {
	memo := map[int]uint64{}
	for _, c := range e.pc {
		if e.ctx.Eval(c, e.lastModel, memo) != 1 {
			return false
		}
	}
	return true
}

// branch forks on a Boolean term; returns the chosen truth value.
func (e *Engine) branch(c *smt.Term) bool {
	if c.IsTrue() {
		return true
	}
	if c.IsFalse() {
		return false
	}
	return e.choose([]*smt.Term{c, e.ctx.Not(c)}, true) == 0
}

// mayPanic forks a panicking path when cond (the failure condition) is feasible.
func (e *Engine) check(fail *smt.Term, msg string) {
	if fail.IsFalse() {
		return
	}
	if e.branch(fail) {
		e.goPanicRT(msg)
	}
}

func (e *Engine) goPanicRT(msg string) {
	panic(&goPanic{pos: e.curPosStr(), msg: "runtime error: " + msg, rt: true, stack: e.stackNames(), val: Iface{T: rtErrType, V: Str{S: "runtime error: " + msg}}})
}

var rtErrType = types.NewNamed(types.NewTypeName(0, nil, "runtime.Error(gosx)", nil), types.Typ[types.String], nil)

func (e *Engine) assume(c *smt.Term, site string) {
	e.rep.Assumes[site]++
	if c.IsTrue() {
		return
	}
	if c.IsFalse() {
		panic(abortPath{kind: "infeasible"})
	}
	if e.pos < len(e.prefix) {
		// replaying: feasibility was established before
		e.pc = append(e.pc, c)
		return
	}
	r, m := e.sol.Check(e.pc, c, e.ndTerms, true)
	if r == smt.Unsat {
		panic(abortPath{kind: "infeasible"})
	}
	if r == smt.Unknown {
		e.rep.Inconclusive = append(e.rep.Inconclusive, "solver unknown on assume at "+site)
	}
	if m != nil {
		e.lastModel = m
	}
	e.pc = append(e.pc, c)
}

func (e *Engine) assert(c *smt.Term, msg, site string) {
	e.asserted = true
	e.rep.AssertSites[site]++
	e.rep.Witnesses++
	if c.IsTrue() {
		e.rep.Obligations++
		e.rep.ObligationsUnsat++
		return
	}
	if e.pos < len(e.prefix) {
		// replayed prefix: obligation already discharged on the path that created this prefix
		if !c.IsFalse() {
			e.pc = append(e.pc, c)
			return
		}
	}
	e.rep.Obligations++
	r, m := e.sol.Check(e.pc, e.ctx.Not(c), e.ndTerms, true)
	switch r {
	case smt.Unsat:
		e.rep.ObligationsUnsat++
	case smt.Sat:
		if m2 := e.niceModel(e.ctx.Not(c)); m2 != nil {
			m = m2
		}
		e.addFindingModel("assert", msg, site, m)
		if len(e.rep.Findings) > 40 {
			panic(abortPath{kind: "stop"})
		}
	default:
		e.rep.Inconclusive = append(e.rep.Inconclusive, "solver unknown on obligation "+site+": "+msg)
	}
	if c.IsFalse() {
		panic(abortPath{kind: "stop"})
	}
	// continue under the assumption that the assertion held
	r2, _ := e.sol.Check(e.pc, c, nil, false)
	if r2 == smt.Unsat {
		panic(abortPath{kind: "stop"})
	}
	e.pc = append(e.pc, c)
}

// niceModel asks for a counterexample whose byte inputs are printable ASCII in
// ['-','z'] (no NUL / control bytes), which replays more meaningfully against the real
// file system and real parsers. Returns nil when no such model exists (or on unknown).
func (e *Engine) niceModel(extra *smt.Term) map[string]uint64 {
	c := extra
	n := 0
	for i, nd := range e.nondets {
		if nd.Kind == "u8" && !nd.Env {
			t := e.ndTerms[i]
			c = e.ctx.And(c, e.ctx.And(e.ctx.Cmp(smt.OpBVUle, e.ctx.BV(0x2d, 8), t), e.ctx.Cmp(smt.OpBVUle, t, e.ctx.BV(0x7a, 8))))
			n++
		}
	}
	if n == 0 {
		return nil
	}
	r, m := e.sol.CheckT(e.pc, c, e.ndTerms, true, 5000)
	if r == smt.Sat {
		return m
	}
	return nil
}

func (e *Engine) addFinding(kind, msg string, stack []string) {
	// need a model of the current pc
	r, m := e.sol.Check(e.pc, e.ctx.True, e.ndTerms, true)
	if r != smt.Sat {
		// fall back to an empty model (all zero)
		m = map[string]uint64{}
	} else if m2 := e.niceModel(e.ctx.True); m2 != nil {
		m = m2
	}
	f := Finding{Kind: kind, Msg: msg, Pos: e.curPosStr(), Decisions: append([]int{}, e.taken...), Stack: stack}
	f.Model = e.modelVals(m)
	e.rep.Findings = append(e.rep.Findings, f)
}

func (e *Engine) addFindingModel(kind, msg, site string, m map[string]uint64) {
	f := Finding{Kind: kind, Msg: msg, Pos: site, Decisions: append([]int{}, e.taken...), Stack: e.stackNames()}
	f.Model = e.modelVals(m)
	e.rep.Findings = append(e.rep.Findings, f)
}

func (e *Engine) modelVals(m map[string]uint64) []NondetVal {
	out := make([]NondetVal, len(e.nondets))
	for i, n := range e.nondets {
		out[i] = n
		if n.Kind != "len" {
			out[i].Val = m[n.Name]
		}
	}
	return out
}

// newNondet creates a fresh symbolic scalar.
func (e *Engine) newNondet(kind string, w int, site string) *smt.Term {
	name := fmt.Sprintf("n%d_%s", len(e.nondets), kind)
	t := e.ctx.Var(name, w)
	e.nondets = append(e.nondets, NondetVal{Name: name, Kind: kind, W: w, Site: site})
	e.ndTerms = append(e.ndTerms, t)
	return t
}

// newNondetEnv creates a fresh symbolic scalar drawn by an environment model
// (clock, random numbers): not part of the positional stream the native harness API reads.
func (e *Engine) newNondetEnv(kind string, w int, site string) *smt.Term {
	t := e.newNondet(kind, w, site)
	e.nondets[len(e.nondets)-1].Env = true
	return t
}

// recordLen records a structural (enumerated) choice in the model stream.
func (e *Engine) recordLen(v int, site string) {
	e.nondets = append(e.nondets, NondetVal{Name: fmt.Sprintf("n%d_len", len(e.nondets)), Kind: "len", W: 64, Val: uint64(v), Site: site})
	e.ndTerms = append(e.ndTerms, e.ctx.BV(uint64(v), 64))
}
