#!/bin/bash
# try_seed.sh <seed-name> [harness-substring]: apply one seeded change to /repo, run the quick
# check of its property (optionally one harness), print the verdict lines, undo the change.
name=$1; id=${name%%-*}
patch=/verif/seeded/$name/patch.rebased.diff; [ -f $patch ] || patch=/verif/seeded/$name/patch.diff
git -C /repo apply $patch || exit 3
s=$(date +%s)
out=$(timeout ${T:-1800} /verif/bin/gosx check --prop $id --tier quick --no-evidence ${2:+--only $2} 2>&1); rc=$?
git -C /repo checkout -- .
echo "$name rc=$rc $(( $(date +%s)-s ))s"
echo "$out" | grep -E "^VIOL|^HOLDS|^INCON|^KNOWN|harness=|inconclusive" | cut -c1-${W:-260} | head -${N:-4}
