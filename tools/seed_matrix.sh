#!/bin/bash
# For every seeded change under /verif/seeded: apply it to /repo (rebased patch when present),
# run the quick check of its property, record the outcome, undo the change.
cd /verif
out=seeded/RESULTS.tsv
[ "$1" = "--resume" ] || : > $out
for d in seeded/*/; do
  name=$(basename $d); id=${name%%-*}
  grep -q "^$name	" $out 2>/dev/null && continue
  patch=/verif/$d/patch.rebased.diff; [ -f $patch ] || patch=/verif/$d/patch.diff
  [ -f $patch ] || continue
  if ! git -C /repo apply --check $patch 2>/dev/null; then echo -e "$name\tpatch-does-not-apply-on-the-fixed-tree\t-" >> $out; continue; fi
  git -C /repo apply $patch
  s=$(date +%s)
  res=$(timeout 1800 ./bin/gosx check --prop $id --tier quick --no-evidence 2>&1); rc=$?
  e=$(date +%s)
  git -C /repo checkout -- .
  line=$(echo "$res" | grep -E "harness=" | head -1 | sed 's/^ *//' | cut -c1-160)
  echo -e "$name\trc=$rc\t$((e-s))s\t$line" >> $out
done
cat $out
