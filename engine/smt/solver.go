package smt

import (
	"bufio"
	"bytes"
	"context"
	"fmt"
	"io"
	"os"
	"os/exec"
	"regexp"
	"strconv"
	"strings"
	"sync"
	"time"
)

var errMu sync.Mutex

type Result int

const (
	Unsat Result = iota
	Sat
	Unknown
)

func (r Result) String() string { return [...]string{"unsat", "sat", "unknown"}[r] }

// Stats are accumulated per solver (per worker) and merged by the caller.
type Stats struct {
	Queries      int
	Sat          int
	Unsat        int
	Unknown      int
	BySolver     map[string]int
	Time         time.Duration
	MaxQuery     time.Duration
	Fallbacks    int
	QuickUnknown int
	HardTimeouts int
	Errors       []string
	CrossOK      int
	CrossDiffs   []string
}

func (s *Stats) Merge(o *Stats) {
	s.Queries += o.Queries
	s.Sat += o.Sat
	s.Unsat += o.Unsat
	s.Unknown += o.Unknown
	s.Time += o.Time
	if o.MaxQuery > s.MaxQuery {
		s.MaxQuery = o.MaxQuery
	}
	s.Fallbacks += o.Fallbacks
	s.QuickUnknown += o.QuickUnknown
	s.HardTimeouts += o.HardTimeouts
	s.Errors = append(s.Errors, o.Errors...)
	s.CrossOK += o.CrossOK
	s.CrossDiffs = append(s.CrossDiffs, o.CrossDiffs...)
	if s.BySolver == nil {
		s.BySolver = map[string]int{}
	}
	for k, v := range o.BySolver {
		s.BySolver[k] += v
	}
}

// Solver drives one long-lived `z3 -in` with an assertion stack that mirrors the
// current path condition, and falls back to one-shot cvc5 / cvc5 int-blasting /
// z3-new on `unknown`.
type Solver struct {
	ctx                     *Ctx
	cmd                     *exec.Cmd
	in                      io.WriteCloser
	out                     *bufio.Reader
	defined                 map[int]bool
	declUF                  map[string]bool
	stack                   []*Term
	TimeoutMs               int
	Stats                   Stats
	ArithHint               bool // try cvc5 --solve-bv-as-int first on fallback
	Cross                   bool // cross-check every query with cvc5 one-shot
	dead                    bool
	curTimeout, lastTimeout int
}

func NewSolver(ctx *Ctx, timeoutMs int) (*Solver, error) {
	s := &Solver{ctx: ctx, TimeoutMs: timeoutMs, defined: map[int]bool{}, declUF: map[string]bool{}}
	s.Stats.BySolver = map[string]int{}
	if os.Getenv("GOSX_CROSS") != "" {
		s.Cross = true
	}
	if err := s.start(); err != nil {
		return nil, err
	}
	return s, nil
}

func (s *Solver) start() error {
	s.cmd = exec.Command("z3", "-in", fmt.Sprintf("-t:%d", s.TimeoutMs))
	in, err := s.cmd.StdinPipe()
	if err != nil {
		return err
	}
	out, err := s.cmd.StdoutPipe()
	if err != nil {
		return err
	}
	s.cmd.Stderr = os.Stderr
	if err := s.cmd.Start(); err != nil {
		return err
	}
	s.in = in
	s.out = bufio.NewReaderSize(out, 1<<20)
	s.defined = map[int]bool{}
	s.declUF = map[string]bool{}
	s.stack = nil
	s.dead = false
	s.lastTimeout = 0
	fmt.Fprintln(s.in, "(set-option :print-success false)")
	fmt.Fprintln(s.in, "(set-option :produce-models true)")
	fmt.Fprintln(s.in, "(set-option :global-declarations true)")
	return nil
}

func (s *Solver) Close() {
	if s.cmd != nil && s.cmd.Process != nil {
		s.in.Close()
		s.cmd.Process.Kill()
		s.cmd.Wait()
	}
}

func (s *Solver) restart() {
	s.Close()
	if err := s.start(); err != nil {
		panic(err)
	}
}

// collectDefs appends to w the declarations for every node reachable from t that
// is not yet in `done`.
func (s *Solver) collectDefs(w *bytes.Buffer, t *Term, done map[int]bool, ufs map[string]bool) {
	if done[t.ID] || t.Op == OpConst {
		return
	}
	// iterative post-order to avoid deep recursion
	type fr struct {
		t *Term
		i int
	}
	st := []fr{{t, 0}}
	for len(st) > 0 {
		f := &st[len(st)-1]
		if done[f.t.ID] || f.t.Op == OpConst {
			st = st[:len(st)-1]
			continue
		}
		if f.i < len(f.t.Args) {
			a := f.t.Args[f.i]
			f.i++
			if !done[a.ID] && a.Op != OpConst {
				st = append(st, fr{a, 0})
			}
			continue
		}
		if f.t.Op == OpUF && !ufs[f.t.Name] {
			ufs[f.t.Name] = true
			w.WriteString(s.ctx.UFs[f.t.Name])
			w.WriteByte('\n')
		}
		if f.t.Op == OpUF && len(f.t.Args) == 0 {
			// nullary UF: ref by define
		}
		w.WriteString(f.t.Decl())
		w.WriteByte('\n')
		done[f.t.ID] = true
		st = st[:len(st)-1]
	}
}

func (s *Solver) readLine() (string, error) {
	for {
		l, err := s.out.ReadString('\n')
		if err != nil {
			return "", err
		}
		l = strings.TrimSpace(l)
		if l != "" {
			return l, nil
		}
	}
}

// sync the z3 assertion stack with pc.
func (s *Solver) syncStack(w *bytes.Buffer, pc []*Term) {
	k := 0
	for k < len(s.stack) && k < len(pc) && s.stack[k] == pc[k] {
		k++
	}
	if n := len(s.stack) - k; n > 0 {
		fmt.Fprintf(w, "(pop %d)\n", n)
		s.stack = s.stack[:k]
	}
	for _, t := range pc[k:] {
		s.collectDefs(w, t, s.defined, s.declUF)
		fmt.Fprintf(w, "(push 1)\n(assert %s)\n", t.ref())
		s.stack = append(s.stack, t)
	}
}

// Check decides pc ∧ extra. If wantModel and the answer is sat, the values of
// `vars` are returned.
func (s *Solver) Check(pc []*Term, extra *Term, vars []*Term, wantModel bool) (Result, map[string]uint64) {
	return s.CheckT(pc, extra, vars, wantModel, 0)
}

// CheckT: quickMs > 0 means a cheap feasibility probe: z3 only, with that timeout, no fall-back.
func (s *Solver) CheckT(pc []*Term, extra *Term, vars []*Term, wantModel bool, quickMs int) (Result, map[string]uint64) {
	if extra.IsFalse() {
		return Unsat, nil
	}
	t0 := time.Now()
	s.curTimeout = s.TimeoutMs
	if quickMs > 0 {
		s.curTimeout = quickMs
	}
	var res Result
	var model map[string]uint64
	var who string
	if s.ArithHint && quickMs == 0 && !extra.IsTrue() {
		// arithmetic-heavy obligations (checksums): bit-blasting in z3 does not finish;
		// go straight to the portfolio (cvc5 integer encoding decides them in seconds)
		res, who = Unknown, "z3-skipped"
	} else {
		res, model, who = s.checkZ3(pc, extra, vars, wantModel)
	}
	if res == Unknown && quickMs > 0 {
		s.Stats.QuickUnknown++
	} else if res == Unknown {
		s.Stats.Fallbacks++
		r2, m2, w2 := s.fallback(pc, extra, vars, wantModel)
		if r2 != Unknown {
			res, model, who = r2, m2, w2
		}
	} else if s.Cross {
		r2, _, w2 := s.oneShot("cvc5", []string{"--tlimit=" + strconv.Itoa(s.TimeoutMs)}, pc, extra, nil, false)
		if r2 != Unknown {
			if r2 != res {
				s.Stats.CrossDiffs = append(s.Stats.CrossDiffs, fmt.Sprintf("z3=%v %s=%v extra=%s", res, w2, r2, extra.String()))
			} else {
				s.Stats.CrossOK++
			}
		}
	}
	d := time.Since(t0)
	if dir := os.Getenv("GOSX_DUMP_SLOW"); dir != "" && d > 2*time.Second {
		os.WriteFile(fmt.Sprintf("%s/q-%d-%d.smt2", dir, os.Getpid(), s.Stats.Queries), s.Script(pc, extra, nil, false), 0o644)
	}
	s.Stats.Queries++
	s.Stats.Time += d
	if d > s.Stats.MaxQuery {
		s.Stats.MaxQuery = d
	}
	s.Stats.BySolver[who]++
	switch res {
	case Sat:
		s.Stats.Sat++
	case Unsat:
		s.Stats.Unsat++
	default:
		s.Stats.Unknown++
	}
	return res, model
}

func (s *Solver) checkZ3(pc []*Term, extra *Term, vars []*Term, wantModel bool) (Result, map[string]uint64, string) {
	if s.dead {
		s.restart()
	}
	var w bytes.Buffer
	s.syncStack(&w, pc)
	s.collectDefs(&w, extra, s.defined, s.declUF)
	if s.curTimeout != s.lastTimeout {
		fmt.Fprintf(&w, "(set-option :timeout %d)\n", s.curTimeout)
		s.lastTimeout = s.curTimeout
	}
	fmt.Fprintf(&w, "(push 1)\n(assert %s)\n(check-sat)\n", extra.ref())
	logZ3(w.Bytes())
	if _, err := s.in.Write(w.Bytes()); err != nil {
		s.dead = true
		s.Stats.Errors = append(s.Stats.Errors, "z3 write: "+err.Error())
		return Unknown, nil, "z3"
	}
	// hard watchdog: z3's soft timeout is not honoured inside some tactics
	type rl struct {
		l   string
		err error
	}
	ch := make(chan rl, 1)
	go func() {
		l, err := s.readLine()
		ch <- rl{l, err}
	}()
	var line string
	var err error
	select {
	case r := <-ch:
		line, err = r.l, r.err
	case <-time.After(time.Duration(s.curTimeout+8000) * time.Millisecond):
		s.Stats.HardTimeouts++
		s.dead = true
		s.Close() // kills the process; the reader goroutine ends with an error
		return Unknown, nil, "z3"
	}
	if err != nil {
		s.dead = true
		s.Stats.Errors = append(s.Stats.Errors, "z3 read: "+err.Error())
		return Unknown, nil, "z3"
	}
	var res Result
	switch line {
	case "sat":
		res = Sat
	case "unsat":
		res = Unsat
	case "unknown":
		res = Unknown
	default:
		// (error ...) or anything else: inconclusive; restart to get a clean state
		s.Stats.Errors = append(s.Stats.Errors, "z3: "+line)
		s.dead = true
		s.Close()
		return Unknown, nil, "z3"
	}
	var model map[string]uint64
	if res == Sat && wantModel && len(vars) > 0 {
		var q bytes.Buffer
		for _, v := range vars {
			s.collectDefs(&q, v, s.defined, s.declUF)
		}
		q.WriteString("(get-value (")
		for _, v := range vars {
			q.WriteString(v.ref())
			q.WriteByte(' ')
		}
		q.WriteString("))\n(echo \"<<END>>\")\n")
		logZ3(q.Bytes())
		s.in.Write(q.Bytes())
		var sb strings.Builder
		for {
			l, err := s.readLine()
			if err != nil {
				s.dead = true
				break
			}
			if strings.Contains(l, "<<END>>") {
				break
			}
			sb.WriteString(l)
			sb.WriteByte(' ')
		}
		model = parseValues(sb.String())
	}
	fmt.Fprintln(s.in, "(pop 1)")
	return res, model, "z3"
}

var valRe = regexp.MustCompile(`\(\s*([A-Za-z_][A-Za-z0-9_!.]*)\s+(#x[0-9a-fA-F]+|#b[01]+|true|false|\(_ bv([0-9]+) [0-9]+\))\s*\)`)

func parseValues(s string) map[string]uint64 {
	m := map[string]uint64{}
	for _, g := range valRe.FindAllStringSubmatch(s, -1) {
		name, v := g[1], g[2]
		switch {
		case v == "true":
			m[name] = 1
		case v == "false":
			m[name] = 0
		case strings.HasPrefix(v, "#x"):
			u, _ := strconv.ParseUint(v[2:], 16, 64)
			m[name] = u
		case strings.HasPrefix(v, "#b"):
			u, _ := strconv.ParseUint(v[2:], 2, 64)
			m[name] = u
		default:
			u, _ := strconv.ParseUint(g[3], 10, 64)
			m[name] = u
		}
	}
	return m
}

// Script renders a standalone SMT-LIB2 script for pc ∧ extra.
func (s *Solver) Script(pc []*Term, extra *Term, vars []*Term, wantModel bool) []byte {
	var w bytes.Buffer
	w.WriteString("(set-logic ALL)\n")
	if wantModel {
		w.WriteString("(set-option :produce-models true)\n")
	}
	done := map[int]bool{}
	ufs := map[string]bool{}
	for _, t := range pc {
		s.collectDefs(&w, t, done, ufs)
		fmt.Fprintf(&w, "(assert %s)\n", t.ref())
	}
	s.collectDefs(&w, extra, done, ufs)
	fmt.Fprintf(&w, "(assert %s)\n", extra.ref())
	if wantModel {
		for _, v := range vars {
			s.collectDefs(&w, v, done, ufs)
		}
	}
	w.WriteString("(check-sat)\n")
	if wantModel && len(vars) > 0 {
		w.WriteString("(get-value (")
		for _, v := range vars {
			w.WriteString(v.ref())
			w.WriteByte(' ')
		}
		w.WriteString("))\n")
	}
	return w.Bytes()
}

func (s *Solver) oneShot(bin string, args []string, pc []*Term, extra *Term, vars []*Term, wantModel bool) (Result, map[string]uint64, string) {
	script := s.Script(pc, extra, vars, wantModel)
	ctx, cancel := context.WithTimeout(context.Background(), time.Duration(s.TimeoutMs+2000)*time.Millisecond)
	defer cancel()
	who := bin
	for _, a := range args {
		if strings.Contains(a, "bv-as-int") {
			who = bin + "-int"
		}
	}
	cmd := exec.CommandContext(ctx, bin, args...)
	cmd.Stdin = bytes.NewReader(script)
	out, _ := cmd.CombinedOutput()
	txt := string(out)
	first := firstLine(txt)
	if ei := strings.Index(txt, "(error"); ei >= 0 {
		// an error before the verdict makes the verdict meaningless; one after it
		// (get-value after unsat) is harmless
		ri := strings.Index(txt, first)
		if (first != "sat" && first != "unsat") || ei < ri || first == "sat" {
			errMu.Lock()
			s.Stats.Errors = append(s.Stats.Errors, who+": "+txt[ei:min(len(txt), ei+200)])
			errMu.Unlock()
			return Unknown, nil, who
		}
	}
	switch first {
	case "sat":
		var m map[string]uint64
		if wantModel {
			m = parseValues(txt)
		}
		return Sat, m, who
	case "unsat":
		return Unsat, nil, who
	}
	return Unknown, nil, who
}

func firstLine(s string) string {
	s = strings.TrimSpace(s)
	if i := strings.IndexByte(s, '\n'); i >= 0 {
		return strings.TrimSpace(s[:i])
	}
	return s
}

// fallback runs the portfolio members concurrently and returns the first definite answer.
func (s *Solver) fallback(pc []*Term, extra *Term, vars []*Term, wantModel bool) (Result, map[string]uint64, string) {
	type ans struct {
		r   Result
		m   map[string]uint64
		who string
	}
	tl := strconv.Itoa(s.TimeoutMs)
	members := []struct {
		bin  string
		args []string
	}{
		{"cvc5", []string{"--tlimit=" + tl}},
		{"cvc5", []string{"--tlimit=" + tl, "--solve-bv-as-int=sum"}},
		{"z3-new", []string{"-in", "-t:" + tl}},
	}
	ch := make(chan ans, len(members))
	for _, m := range members {
		m := m
		go func() {
			r, mm, who := s.oneShot(m.bin, m.args, pc, extra, vars, wantModel)
			ch <- ans{r, mm, who}
		}()
	}
	var first *ans
	for range members {
		a := <-ch
		if a.r != Unknown {
			if first == nil {
				aa := a
				first = &aa
				// do not wait for the others beyond this point; they end by their own timeout
				break
			}
		}
	}
	if first == nil {
		return Unknown, nil, "portfolio"
	}
	return first.r, first.m, first.who
}

var z3log = os.Getenv("GOSX_LOG_Z3")

// logZ3 appends everything sent to z3 to the file named by GOSX_LOG_Z3 (debugging aid).
func logZ3(b []byte) {
	if z3log == "" {
		return
	}
	f, err := os.OpenFile(z3log, os.O_APPEND|os.O_CREATE|os.O_WRONLY, 0o644)
	if err == nil {
		f.Write(b)
		f.Close()
	}
}
