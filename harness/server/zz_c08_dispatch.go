//go:build verif

package server

import (
	"bytes"
	"context"
	"io"
	"net"
	"time"

	"github.com/honeytrap/honeytrap/pushers"
)

// zzConn: a client connection whose byte stream is symbolic and whose first segment
// boundary is a structural choice (the first Read returns `first` bytes, later Reads
// return up to `chunk` bytes each, then io.EOF).
type zzConn struct {
	data      []byte
	pos       int
	first     int
	chunk     int
	local     net.Addr
	remote    net.Addr
	closed    bool
	reads     int
	deadlines int
	written   []byte
}

func (c *zzConn) Read(b []byte) (int, error) {
	if c.closed {
		return 0, io.ErrClosedPipe
	}
	if c.pos >= len(c.data) {
		return 0, io.EOF
	}
	n := c.chunk
	if c.reads == 0 {
		n = c.first
	}
	c.reads++
	if n > len(c.data)-c.pos {
		n = len(c.data) - c.pos
	}
	if n > len(b) {
		n = len(b)
	}
	copy(b, c.data[c.pos:c.pos+n])
	c.pos += n
	return n, nil
}
func (c *zzConn) Write(b []byte) (int, error) {
	c.written = append(c.written, b...)
	return len(b), nil
}
func (c *zzConn) Close() error                       { c.closed = true; return nil }
func (c *zzConn) LocalAddr() net.Addr                { return c.local }
func (c *zzConn) RemoteAddr() net.Addr               { return c.remote }
func (c *zzConn) SetDeadline(t time.Time) error      { c.deadlines++; return nil }
func (c *zzConn) SetReadDeadline(t time.Time) error  { c.deadlines++; return nil }
func (c *zzConn) SetWriteDeadline(t time.Time) error { c.deadlines++; return nil }

type zzHandled struct {
	id   int
	data []byte
}

var zzLog []zzHandled

// service without a payload detector
type zzPlainSvc struct {
	id      int
	bufSize int
}

func (s *zzPlainSvc) SetChannel(pushers.Channel) {}
func (s *zzPlainSvc) Handle(ctx context.Context, conn net.Conn) error {
	return zzDrain(s.id, s.bufSize, conn)
}

// service whose detector is a prefix predicate
type zzDetSvc struct {
	zzPlainSvc
	prefix []byte
}

func (s *zzDetSvc) CanHandle(p []byte) bool { return bytes.HasPrefix(p, s.prefix) }

func zzDrain(id, bufSize int, conn net.Conn) error {
	var got []byte
	buf := make([]byte, bufSize)
	for i := 0; i < 64; i++ {
		n, err := conn.Read(buf)
		got = append(got, buf[:n]...)
		if err != nil {
			break
		}
	}
	zzLog = append(zzLog, zzHandled{id, got})
	return nil
}

var zzPrefixes = [][]byte{nil, []byte("A"), []byte("AB"), []byte("B")}

// C08/dispatch: the real handle -> findService -> peek/timeout wrappers -> Handle on
// every service list of length 0..S over {detector-less, prefix "A", "AB", "B"},
// every client stream of 1..L symbolic bytes, every first-segment length and two
// service-side read-buffer sizes.
func zzH_C08_dispatch() {
	zzLog = nil
	port := 8000 + zzLen(0, 1)
	udp := zzLen(0, 1) == 1
	mkAddr := func(ip net.IP, p int) net.Addr {
		if udp {
			return &net.UDPAddr{IP: ip, Port: p}
		}
		return &net.TCPAddr{IP: ip, Port: p}
	}
	// configured entry: wildcard or specific address, port 8000
	var cfgIP net.IP
	if zzLen(0, 1) == 1 {
		cfgIP = net.IPv4(10, 0, 0, 1)
	}
	nsvc := zzLen(0, zzParam("S", 3))
	bufSize := []int{1, 4096}[zzLen(0, 1)]
	var list []*ServiceMap
	kinds := make([]int, nsvc)
	for i := 0; i < nsvc; i++ {
		kinds[i] = zzLen(0, len(zzPrefixes)-1)
		if kinds[i] == 0 {
			list = append(list, &ServiceMap{Service: &zzPlainSvc{id: i, bufSize: bufSize}, Name: "plain", Type: "plain"})
		} else {
			list = append(list, &ServiceMap{Service: &zzDetSvc{zzPlainSvc{id: i, bufSize: bufSize}, zzPrefixes[kinds[i]]}, Name: "det", Type: "det"})
		}
	}
	hc := &Honeytrap{ports: map[net.Addr][]*ServiceMap{}}
	if !udp {
		hc.ports[&net.TCPAddr{IP: cfgIP, Port: 8000}] = list
	} else {
		hc.ports[&net.UDPAddr{IP: cfgIP, Port: 8000}] = list
	}

	l := zzLen(1, zzParam("L", 4))
	stream := zzBytes(l)
	orig := make([]byte, l)
	copy(orig, stream)
	first := zzLen(1, l)
	conn := &zzConn{data: stream, first: first, chunk: 2, local: mkAddr(net.IPv4(10, 0, 0, 1), port), remote: mkAddr(net.IPv4(10, 9, 9, 9), 40000)}

	hc.handle(conn)

	// reference: which service is chosen
	want := -1
	if port == 8000 {
		switch {
		case nsvc == 1:
			want = 0
		case nsvc > 1:
			for i := 0; i < nsvc && want < 0; i++ {
				if kinds[i] == 0 || bytes.HasPrefix(orig[:first], zzPrefixes[kinds[i]]) {
					want = i
				}
			}
		}
	}
	if want < 0 {
		zzAssert(len(zzLog) == 0, "a connection matching no port or no detector reaches no service")
		zzAssert(conn.closed, "a connection that reaches no service is closed")
		return
	}
	zzAssert(len(zzLog) == 1, "the connection is handed to exactly one service")
	if len(zzLog) == 1 {
		zzAssert(zzLog[0].id == want, "the connection goes to the first service that has no detector or whose detector accepts the first bytes")
		same := len(zzLog[0].data) == l
		for i := 0; same && i < l; i++ {
			same = zzLog[0].data[i] == orig[i]
		}
		zzAssert(same, "the chosen service reads the client's stream complete and in order from its first byte")
	}
	zzAssert(conn.closed, "the connection is closed after handling")
}

// service that lets other connections run before it reads (a handler that is scheduled late)
type zzLateSvc struct{ zzDetSvc }

func (s *zzLateSvc) Handle(ctx context.Context, conn net.Conn) error {
	zzYield()
	return zzDrain(s.id, s.bufSize, conn)
}

// C08/two-connections (also C03): two connections to one port with a detector service are
// dispatched at the same time (one goroutine each, as the server does). Whatever the
// interleaving at the scheduling points, each service instance invocation reads exactly
// its own connection's bytes.
func zzH_C08_two() {
	zzLog = nil
	a := zzBytes(2)
	b := zzBytes(2)
	zzAssume(zzAnd(a[0] == 'A', b[0] == 'A'))
	origA, origB := append([]byte{}, a...), append([]byte{}, b...)
	laddr := &net.TCPAddr{IP: net.IPv4(10, 0, 0, 1), Port: 8000}
	svc := &zzLateSvc{zzDetSvc{zzPlainSvc{id: 7, bufSize: 4096}, []byte("A")}}
	other := &zzDetSvc{zzPlainSvc{id: 8, bufSize: 4096}, []byte("Z")}
	hc := &Honeytrap{ports: map[net.Addr][]*ServiceMap{laddr: {{Service: other, Name: "z"}, {Service: svc, Name: "a"}}}}
	ca := &zzConn{data: a, first: 2, chunk: 2, local: laddr, remote: &net.TCPAddr{IP: net.IPv4(10, 9, 9, 1), Port: 40001}}
	cb := &zzConn{data: b, first: 2, chunk: 2, local: laddr, remote: &net.TCPAddr{IP: net.IPv4(10, 9, 9, 2), Port: 40002}}
	done := 0
	go func() { hc.handle(ca); done++ }()
	go func() { hc.handle(cb); done++ }()
	zzQuiesce()
	zzAssert(done == 2 && len(zzLog) == 2, "both connections are handled")
	if len(zzLog) == 2 {
		x, y := zzLog[0].data, zzLog[1].data
		okXY := zzAnd(zzEq2(x, origA), zzEq2(y, origB))
		okYX := zzAnd(zzEq2(x, origB), zzEq2(y, origA))
		zzAssert(zzOr(okXY, okYX), "each handler reads exactly the bytes of its own connection, whatever other connections are dispatched meanwhile")
	}
}

func zzEq2(a, b []byte) bool {
	if len(a) != len(b) {
		return false
	}
	eq := true
	for i := range a {
		eq = zzAnd(eq, a[i] == b[i])
	}
	return eq
}
