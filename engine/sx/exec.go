package sx

import (
	"fmt"
	"go/constant"
	"go/token"
	"go/types"
	"sort"
	"strings"
	"sync"

	"gosx/smt"

	"golang.org/x/tools/go/ssa"
)

type fnInfo struct {
	idx map[ssa.Value]int
	n   int
}

var fnInfos sync.Map // *ssa.Function -> *fnInfo

func getFnInfo(fn *ssa.Function) *fnInfo {
	if v, ok := fnInfos.Load(fn); ok {
		return v.(*fnInfo)
	}
	fi := &fnInfo{idx: map[ssa.Value]int{}}
	for _, p := range fn.Params {
		fi.idx[p] = fi.n
		fi.n++
	}
	for _, p := range fn.FreeVars {
		fi.idx[p] = fi.n
		fi.n++
	}
	for _, b := range fn.Blocks {
		for _, in := range b.Instrs {
			if v, ok := in.(ssa.Value); ok {
				fi.idx[v] = fi.n
				fi.n++
			}
		}
	}
	v, _ := fnInfos.LoadOrStore(fn, fi)
	return v.(*fnInfo)
}

type deferred struct {
	fn   Value // *Closure
	args []Value
	// for invoke-mode defers
	recv   Value
	method *types.Func
	call   *ssa.CallCommon
}

type frame struct {
	fn        *ssa.Function
	info      *fnInfo
	regs      []Value
	defers    []deferred
	visits    map[int]int
	panicking *goPanic
	recovered bool
	result    Value
	unwind    int
	caller    *frame
}

func (e *Engine) get(f *frame, v ssa.Value) Value {
	switch x := v.(type) {
	case *ssa.Const:
		return e.constVal(x)
	case *ssa.Global:
		return Ptr{Obj: e.global(x)}
	case *ssa.Function:
		return &Closure{Fn: x}
	case *ssa.Builtin:
		return &Closure{Name: "builtin:" + x.Name()}
	}
	i, ok := f.info.idx[v]
	if !ok {
		panic(fmt.Sprintf("gosx internal: no register for %s (%T) in %s", v.Name(), v, f.fn))
	}
	r := f.regs[i]
	if r == nil {
		panic(fmt.Sprintf("gosx internal: read of unset register %s in %s", v.Name(), f.fn))
	}
	return r
}

func (e *Engine) set(f *frame, v ssa.Value, val Value) {
	f.regs[f.info.idx[v]] = val
}

func (e *Engine) constVal(c *ssa.Const) Value {
	t := c.Type()
	if c.Value == nil {
		return e.zero(t)
	}
	switch u := t.Underlying().(type) {
	case *types.Basic:
		switch {
		case u.Info()&types.IsBoolean != 0:
			return e.ctx.Bool(constant.BoolVal(c.Value))
		case u.Info()&types.IsInteger != 0:
			w := e.width(u)
			if i, ok := constant.Int64Val(constant.ToInt(c.Value)); ok {
				return e.ctx.BV(uint64(i), w)
			}
			ui, _ := constant.Uint64Val(constant.ToInt(c.Value))
			return e.ctx.BV(ui, w)
		case u.Info()&types.IsString != 0:
			return Str{S: constant.StringVal(c.Value)}
		case u.Info()&types.IsFloat != 0:
			f, _ := constant.Float64Val(c.Value)
			return Float{f}
		case u.Info()&types.IsComplex != 0:
			f, _ := constant.Float64Val(constant.Real(c.Value))
			return Float{f}
		}
	case *types.Interface:
		// typed constant converted to interface is done by MakeInterface; here only nil
		return Iface{}
	}
	panic("gosx: const of type " + t.String())
}

func (e *Engine) global(g *ssa.Global) *Obj {
	if o, ok := e.globals[g]; ok {
		return o
	}
	elem := g.Type().(*types.Pointer).Elem()
	o := e.newObj(elem)
	o.epoch = 0
	o.Tag = g.String()
	e.globals[g] = o
	if e.frozen {
		// created lazily during a path: contents must be reset afterwards
		// (object itself stays; values written are undone via epoch 0 logging)
	}
	// lazily synthesise well-known error variables of packages whose init is not run
	if g.Pkg != nil && !e.initDone[g.Pkg] {
		if types.Identical(elem, errorType) {
			o.V = e.mkError(g.Pkg.Pkg.Path() + "." + g.Name())
		}
	}
	return o
}

var errorType = types.Universe.Lookup("error").Type()

// mkError builds an error value backed by a private string type.
func (e *Engine) mkError(msg string) Value {
	return Iface{T: gosxErrType, V: Str{S: msg}}
}

var gosxErrType = types.NewNamed(types.NewTypeName(0, nil, "gosx.error", nil), types.Typ[types.String], nil)

// callFunction interprets fn with the given arguments.
func (e *Engine) callFunction(fn *ssa.Function, args []Value, env []Value) Value {
	if fn.Blocks == nil {
		e.unsupported("function without body: %s", fn.String())
	}
	if e.depth >= e.cfg.MaxDepth {
		// report unbounded recursion when the same function dominates the stack
		cnt := 0
		for _, fr := range e.stack {
			if fr.fn == fn {
				cnt++
			}
		}
		if cnt > e.cfg.MaxDepth/2 {
			e.addFinding("recursion", "unbounded recursion (call depth bound "+fmt.Sprint(e.cfg.MaxDepth)+" reached) in "+fn.String(), e.stackNames())
			panic(abortPath{kind: "stop"})
		}
		panic(abortPath{kind: "budget", msg: "call depth bound reached in " + fn.String()})
	}
	info := getFnInfo(fn)
	f := &frame{fn: fn, info: info, regs: make([]Value, info.n)}
	if len(args) != len(fn.Params) {
		panic(fmt.Sprintf("gosx internal: call %s with %d args, want %d", fn, len(args), len(fn.Params)))
	}
	for i, p := range fn.Params {
		f.regs[info.idx[p]] = args[i]
	}
	for i, p := range fn.FreeVars {
		f.regs[info.idx[p]] = env[i]
	}
	if len(e.stack) > 0 {
		f.caller = e.stack[len(e.stack)-1]
	}
	e.stack = append(e.stack, f)
	e.depth++
	g := e.cur
	defer func() {
		if e.cur == g {
			e.stack = e.stack[:len(e.stack)-1]
			e.depth--
		}
	}()
	return e.runFrame(f)
}

// runFrame executes the function body, handling Go panics / defers / recover.
func (e *Engine) runFrame(f *frame) (result Value) {
	var start *ssa.BasicBlock = f.fn.Blocks[0]
	for {
		p := e.runBlocks(f, start)
		if p == nil {
			return f.result
		}
		// a Go panic is propagating in this frame: run deferred calls
		f.panicking = p
		e.runDefers(f)
		if f.panicking != nil {
			panic(f.panicking) // continue unwinding into the caller
		}
		// recovered
		e.rep.RecoveredPanics++
		if f.fn.Recover != nil {
			start = f.fn.Recover
			continue
		}
		return e.zeroResults(f.fn)
	}
}

func (e *Engine) zeroResults(fn *ssa.Function) Value {
	res := fn.Signature.Results()
	switch res.Len() {
	case 0:
		return nil
	case 1:
		return e.zero(res.At(0).Type())
	}
	return e.zero(res)
}

// runBlocks runs from block b until return; a Go panic raised inside is returned.
func (e *Engine) runBlocks(f *frame, b *ssa.BasicBlock) (gp *goPanic) {
	defer func() {
		if r := recover(); r != nil {
			if p, ok := r.(*goPanic); ok && e.stack[len(e.stack)-1] == f {
				gp = p
				return
			}
			if p, ok := r.(*goPanic); ok {
				// panic from a callee frame already unwound to here
				gp = p
				// restore stack to this frame
				for len(e.stack) > 0 && e.stack[len(e.stack)-1] != f {
					e.stack = e.stack[:len(e.stack)-1]
					e.depth--
				}
				return
			}
			panic(r)
		}
	}()
	var prev *ssa.BasicBlock
	for {
		if f.visits == nil {
			f.visits = map[int]int{}
		}
		f.visits[b.Index]++
		if n := f.visits[b.Index]; n > e.rep.MaxUnwindSeen {
			e.rep.MaxUnwindSeen = n
		}
		bound := e.cfg.Unwind
		if f.unwind > 0 {
			bound = f.unwind
		}
		derived := false
		if ub, ok := e.extraCtx["unwind"]; ok {
			if sub, ok2 := e.extraCtx["unwindFn"].(string); !ok2 || sub == "" || strings.Contains(f.fn.String(), sub) {
				bound = ub.(int)
				derived = true
			}
		}
		if f.visits[b.Index] > bound {
			if e.cfg.UnwindIsBug || (derived && e.extraCtx["unwindIsBug"] == true) {
				e.addFinding("unwind", fmt.Sprintf("loop exceeded its derived trip bound %d in %s", bound, f.fn.String()), e.stackNames())
				panic(abortPath{kind: "stop"})
			}
			panic(abortPath{kind: "budget", msg: fmt.Sprintf("unwinding assertion failed: bound %d in %s", bound, f.fn.String())})
		}
		var next *ssa.BasicBlock
		for _, in := range b.Instrs {
			e.steps++
			if e.steps > e.cfg.MaxSteps {
				panic(abortPath{kind: "budget", msg: "step budget exceeded"})
			}
			if phi, ok := in.(*ssa.Phi); ok {
				for i, p := range b.Preds {
					if p == prev {
						e.set(f, phi, e.get(f, phi.Edges[i]))
						break
					}
				}
				continue
			}
			if pos := in.Pos(); pos != token.NoPos {
				e.curPosTok = pos
			}
			switch x := in.(type) {
			case *ssa.Jump:
				next = b.Succs[0]
			case *ssa.If:
				c := e.get(f, x.Cond).(*smt.Term)
				if e.branch(c) {
					next = b.Succs[0]
				} else {
					next = b.Succs[1]
				}
			case *ssa.Return:
				switch len(x.Results) {
				case 0:
					f.result = nil
				case 1:
					f.result = e.get(f, x.Results[0])
				default:
					tp := make(Tuple, len(x.Results))
					for i, r := range x.Results {
						tp[i] = e.get(f, r)
					}
					f.result = tp
				}
				return nil
			case *ssa.Panic:
				v := e.get(f, x.X)
				panic(&goPanic{pos: e.curPosStr(), val: v, msg: e.describe(v), stack: e.stackNames()})
			case *ssa.RunDefers:
				e.runDefers(f)
			default:
				e.exec(f, in)
			}
		}
		prev = b
		b = next
		if b == nil {
			panic("gosx internal: fell off block in " + f.fn.String())
		}
	}
}

func (e *Engine) runDefers(f *frame) {
	for len(f.defers) > 0 {
		d := f.defers[len(f.defers)-1]
		f.defers = f.defers[:len(f.defers)-1]
		func() {
			defer func() {
				if r := recover(); r != nil {
					if p, ok := r.(*goPanic); ok {
						// a panic inside a deferred call replaces the current one
						for len(e.stack) > 0 && e.stack[len(e.stack)-1] != f {
							e.stack = e.stack[:len(e.stack)-1]
							e.depth--
						}
						f.panicking = p
						return
					}
					panic(r)
				}
			}()
			e.deferDepth++
			e.callValue(d.fn, d.args, d.call)
			e.deferDepth--
		}()
	}
}

// doRecover implements the recover() builtin: it is effective only when called
// directly by a deferred function while its parent frame is panicking.
func (e *Engine) doRecover() Value {
	if len(e.stack) < 2 {
		return Iface{}
	}
	parent := e.stack[len(e.stack)-2]
	if parent.panicking == nil {
		return Iface{}
	}
	p := parent.panicking
	parent.panicking = nil
	if iv, ok := p.val.(Iface); ok {
		return iv
	}
	return Iface{T: types.Typ[types.String], V: Str{S: p.msg}}
}

func (e *Engine) describe(v Value) string {
	if iv, ok := v.(Iface); ok {
		switch x := iv.V.(type) {
		case Str:
			if x.IsConcrete() {
				return x.Concrete()
			}
			return "<symbolic string>"
		case *smt.Term:
			return x.String()
		}
		if iv.T != nil {
			return "value of type " + iv.T.String()
		}
		return "nil"
	}
	return fmt.Sprintf("%T", v)
}

func (e *Engine) exec(f *frame, in ssa.Instruction) {
	switch x := in.(type) {
	case *ssa.Alloc:
		o := e.newObj(x.Type().(*types.Pointer).Elem())
		e.set(f, x, Ptr{Obj: o})
	case *ssa.UnOp:
		e.set(f, x, e.unop(f, x))
	case *ssa.BinOp:
		e.set(f, x, e.binop(x.Op, e.get(f, x.X), e.get(f, x.Y), x.X.Type(), x.Y.Type()))
	case *ssa.Store:
		p := e.get(f, x.Addr).(Ptr)
		if p.Idx != nil {
			nv := e.get(f, x.Val).(*smt.Term)
			for k := 0; k < p.N; k++ {
				o := e.sub(p.Arr, p.Off+k)
				old := e.load(o).(*smt.Term)
				e.store(o, e.ctx.Ite(e.ctx.Eq(p.Idx, e.ctx.BV(uint64(k), p.Idx.W)), nv, old))
			}
			break
		}
		if p.Obj == nil {
			e.goPanicRT("invalid memory address or nil pointer dereference")
		}
		e.store(p.Obj, e.get(f, x.Val))
	case *ssa.FieldAddr:
		p := e.get(f, x.X).(Ptr)
		if p.Obj == nil {
			e.goPanicRT("invalid memory address or nil pointer dereference")
		}
		e.set(f, x, Ptr{Obj: e.sub(p.Obj, x.Field)})
	case *ssa.Field:
		s := e.get(f, x.X).(*Struct)
		e.set(f, x, s.F[x.Field])
	case *ssa.IndexAddr:
		e.set(f, x, e.indexAddr(f, x))
	case *ssa.Index:
		e.set(f, x, e.index(f, x))
	case *ssa.Slice:
		e.set(f, x, e.sliceOp(f, x))
	case *ssa.Call:
		var r Value
		if e.tolerantInit && f.fn.Synthetic == "package initializer" {
			r = e.tolerantCall(f, x)
		} else {
			r = e.call(f, &x.Call)
		}
		if r == nil {
			r = Tuple{}
		}
		e.set(f, x, r)
	case *ssa.Extract:
		e.set(f, x, e.get(f, x.Tuple).(Tuple)[x.Index])
	case *ssa.Convert:
		e.set(f, x, e.convert(e.get(f, x.X), x.X.Type(), x.Type()))
	case *ssa.ChangeType:
		e.set(f, x, e.get(f, x.X))
	case *ssa.ChangeInterface:
		e.set(f, x, e.get(f, x.X))
	case *ssa.MakeInterface:
		e.set(f, x, Iface{T: x.X.Type(), V: e.get(f, x.X)})
	case *ssa.TypeAssert:
		e.set(f, x, e.typeAssert(f, x))
	case *ssa.MakeClosure:
		fn := x.Fn.(*ssa.Function)
		env := make([]Value, len(x.Bindings))
		for i, b := range x.Bindings {
			env[i] = e.get(f, b)
		}
		e.set(f, x, &Closure{Fn: fn, Env: env})
	case *ssa.MakeSlice:
		e.set(f, x, e.makeSlice(f, x))
	case *ssa.MakeMap:
		e.nextObj++
		e.set(f, x, &MapObj{ID: e.nextObj, T: x.Type().Underlying().(*types.Map), epoch: e.epoch})
	case *ssa.MakeChan:
		sz := e.get(f, x.Size).(*smt.Term)
		n, ok := concInt(sz)
		if !ok {
			e.unsupported("symbolic channel size")
		}
		e.set(f, x, e.newChan(n, x.Type()))
	case *ssa.MapUpdate:
		m := e.get(f, x.Map).(*MapObj)
		if m == nil {
			e.goPanicRT("assignment to entry in nil map")
		}
		e.mapUpdate(m, e.get(f, x.Key), e.get(f, x.Value))
	case *ssa.Lookup:
		e.set(f, x, e.lookup(f, x))
	case *ssa.Range:
		e.set(f, x, e.rangeOp(e.get(f, x.X)))
	case *ssa.Next:
		e.set(f, x, e.next(e.get(f, x.Iter).(*Iter), x))
	case *ssa.Defer:
		fn, args := e.prepareCall(f, &x.Call)
		f.defers = append(f.defers, deferred{fn: fn, args: args, call: &x.Call})
	case *ssa.Go:
		fn, args := e.prepareCall(f, &x.Call)
		e.spawn(fn, args, &x.Call)
	case *ssa.Send:
		e.chanSend(e.get(f, x.Chan).(*ChanObj), e.get(f, x.X))
	case *ssa.Select:
		e.set(f, x, e.selectOp(f, x))
	case *ssa.SliceToArrayPointer:
		s := e.get(f, x.X).(Slice)
		n := int(x.Type().(*types.Pointer).Elem().Underlying().(*types.Array).Len())
		if s.Len < n {
			e.goPanicRT("cannot convert slice with length to array or pointer to array with length")
		}
		if s.Arr == nil {
			e.set(f, x, Ptr{})
			break
		}
		e.set(f, x, Ptr{Obj: e.arrayView(s, n)})
	case *ssa.DebugRef:
	default:
		e.unsupported("instruction %T", in)
	}
}

// arrayView builds an array object aliasing n elements of the slice.
func (e *Engine) arrayView(s Slice, n int) *Obj {
	if s.Off == 0 && len(s.Arr.Sub) == n {
		return s.Arr
	}
	elem := s.Arr.T.Underlying().(*types.Array).Elem()
	o := e.newArrayObj(elem, n)
	for i := 0; i < n; i++ {
		o.Sub[i] = e.sub(s.Arr, s.Off+i)
	}
	return o
}

func (e *Engine) unop(f *frame, x *ssa.UnOp) Value {
	v := e.get(f, x.X)
	switch x.Op {
	case token.MUL: // load
		p := v.(Ptr)
		if p.Idx != nil {
			// ite chain over the cells; runs of equal cells (constant lookup tables such as
			// utf8's first[256]) are merged into one range test
			vals := make([]*smt.Term, p.N)
			for k := 0; k < p.N; k++ {
				vals[k] = e.load(e.sub(p.Arr, p.Off+k)).(*smt.Term)
			}
			r := vals[p.N-1]
			for hi := p.N - 2; hi >= 0; {
				lo := hi
				for lo > 0 && vals[lo-1] == vals[hi] {
					lo--
				}
				if vals[hi] != r {
					var c *smt.Term
					if lo == hi {
						c = e.ctx.Eq(p.Idx, e.ctx.BV(uint64(hi), p.Idx.W))
					} else {
						c = e.ctx.And(e.ctx.Cmp(smt.OpBVUle, e.ctx.BV(uint64(lo), p.Idx.W), p.Idx), e.ctx.Cmp(smt.OpBVUle, p.Idx, e.ctx.BV(uint64(hi), p.Idx.W)))
					}
					r = e.ctx.Ite(c, vals[hi], r)
				}
				hi = lo - 1
			}
			return r
		}
		if p.Obj == nil {
			e.goPanicRT("invalid memory address or nil pointer dereference")
		}
		return e.load(p.Obj)
	case token.NOT:
		return e.ctx.Not(v.(*smt.Term))
	case token.SUB:
		if fl, ok := v.(Float); ok {
			return Float{-fl.F}
		}
		return e.ctx.BVNeg(v.(*smt.Term))
	case token.XOR:
		return e.ctx.BVNot(v.(*smt.Term))
	case token.ARROW:
		val, ok := e.chanRecv(v.(*ChanObj), x.Type())
		if x.CommaOk {
			return Tuple{val, e.ctx.Bool(ok)}
		}
		return val
	}
	e.unsupported("unop %s", x.Op)
	return nil
}

func (e *Engine) elemIndex(idx *smt.Term, n int, msg string) int {
	// bounds check + concretisation of a symbolic index (fork over feasible values)
	if c, ok := concInt(idx); ok {
		if c < 0 || c >= n {
			e.goPanicRT(fmt.Sprintf("index out of range [%d] with length %d", c, n))
		}
		return c
	}
	w := idx.W
	oob := e.ctx.Not(e.ctx.Cmp(smt.OpBVUlt, idx, e.ctx.BV(uint64(n), w)))
	if n == 0 {
		oob = e.ctx.True
	}
	e.check(oob, "index out of range (symbolic index) with length "+fmt.Sprint(n))
	return -1
}

func (e *Engine) indexAddr(f *frame, x *ssa.IndexAddr) Value {
	base := e.get(f, x.X)
	idx := e.toInt64(e.get(f, x.Index).(*smt.Term), x.Index.Type())
	var arr *Obj
	off, n := 0, 0
	switch b := base.(type) {
	case Slice:
		arr, off, n = b.Arr, b.Off, b.Len
	case Ptr:
		if b.Obj == nil {
			e.goPanicRT("invalid memory address or nil pointer dereference")
		}
		arr, n = b.Obj, len(b.Obj.Sub)
	default:
		e.unsupported("IndexAddr on %T", base)
	}
	i := e.elemIndex(idx, n, "")
	if i < 0 {
		// symbolic index into an array of scalars: keep the pointer symbolic (loads become
		// ite chains, stores conditional updates); otherwise fork over the feasible positions
		if n <= 4096 && !isAggregate(arr.T.Underlying().(*types.Array).Elem()) && isScalarType(arr.T.Underlying().(*types.Array).Elem()) {
			return Ptr{Arr: arr, Off: off, N: n, Idx: idx}
		}
		i = e.forkIndexIn(idx, n, arr, off)
	}
	return Ptr{Obj: e.sub(arr, off+i)}
}

// forkIndexIn case-splits a symbolic in-range index into arr[off:off+n]. Beyond 1024
// cells only the cells written so far are split individually; the untouched (zero) cells
// are represented by one feasible member (first, last or middle untouched cell, else a
// solver model). This concretisation can only lose paths, never invent one; it is counted
// in Report.Concretised and stated in the evidence.
func (e *Engine) forkIndexIn(idx *smt.Term, n int, arr *Obj, off int) int {
	if n <= 1024 {
		return e.forkIndex(idx, n)
	}
	var ks []int
	var conds []*smt.Term
	rest := e.ctx.True
	first, last := -1, -1
	for k := 0; k < n; k++ {
		if arr.Sub[off+k] != nil {
			ks = append(ks, k)
			c := e.ctx.Eq(idx, e.ctx.BV(uint64(k), idx.W))
			conds = append(conds, c)
			rest = e.ctx.And(rest, e.ctx.Not(c))
		} else {
			if first < 0 {
				first = k
			}
			last = k
		}
	}
	if first >= 0 {
		if e.rep.Concretised == nil {
			e.rep.Concretised = map[string]int{}
		}
		e.rep.Concretised[e.where()]++
		rep := -1
		for _, k := range []int{first, last, (first + last) / 2} {
			if arr.Sub[off+k] != nil {
				continue
			}
			r, _ := e.sol.CheckT(e.pc, e.ctx.Eq(idx, e.ctx.BV(uint64(k), idx.W)), nil, false, 3000)
			if r == smt.Sat {
				rep = k
				break
			}
		}
		if rep < 0 {
			r, m := e.sol.Check(e.pc, rest, e.ndTerms, true)
			if r == smt.Sat && m != nil {
				rep = int(e.ctx.Eval(idx, m, map[int]uint64{}))
				if rep < 0 || rep >= n || arr.Sub[off+rep] != nil {
					rep = -1
				}
			} else if r == smt.Unknown {
				e.unsupported("large symbolic index: no representative found (solver unknown)")
			}
		}
		if rep >= 0 {
			ks = append(ks, rep)
			conds = append(conds, e.ctx.Eq(idx, e.ctx.BV(uint64(rep), idx.W)))
		}
	}
	if len(conds) == 0 {
		panic(abortPath{kind: "infeasible"})
	}
	return ks[e.choose(conds, false)]
}

// forkIndex case-splits a symbolic in-range index.
func (e *Engine) forkIndex(idx *smt.Term, n int) int {
	conds := make([]*smt.Term, n)
	for k := 0; k < n; k++ {
		conds[k] = e.ctx.Eq(idx, e.ctx.BV(uint64(k), idx.W))
	}
	return e.choose(conds, true)
}

func (e *Engine) toInt64(t *smt.Term, typ types.Type) *smt.Term {
	if t.W == 64 {
		return t
	}
	if isSigned(typ) {
		return e.ctx.SExt(t, 64)
	}
	return e.ctx.ZExt(t, 64)
}

func (e *Engine) index(f *frame, x *ssa.Index) Value {
	base := e.get(f, x.X)
	idx := e.toInt64(e.get(f, x.Index).(*smt.Term), x.Index.Type())
	switch b := base.(type) {
	case Str:
		n := b.Len()
		i := e.elemIndex(idx, n, "")
		if i >= 0 {
			return e.strByte(b, i)
		}
		// symbolic index into a string: ite chain
		r := e.strByte(b, n-1)
		for k := n - 2; k >= 0; k-- {
			r = e.ctx.Ite(e.ctx.Eq(idx, e.intC(k)), e.strByte(b, k), r)
		}
		return r
	case *Array:
		n := len(b.E)
		i := e.elemIndex(idx, n, "")
		if i >= 0 {
			return b.E[i]
		}
		if _, ok := b.E[0].(*smt.Term); ok {
			r := b.E[n-1].(*smt.Term)
			for k := n - 2; k >= 0; k-- {
				r = e.ctx.Ite(e.ctx.Eq(idx, e.intC(k)), b.E[k].(*smt.Term), r)
			}
			return r
		}
		return b.E[e.forkIndex(idx, n)]
	}
	e.unsupported("Index on %T", base)
	return nil
}

// concretize forks over the feasible values of t within [lo,hi].
func (e *Engine) concretize(t *smt.Term, signed bool, lo, hi int, what string) int {
	if c, ok := concInt(t); ok {
		if !signed {
			return int(t.C)
		}
		return c
	}
	if hi-lo > 4096 {
		// wide range (e.g. a slice of a 64 KiB receive buffer): enumerate the feasible values
		// with the solver instead of probing every candidate; the sorted set makes the
		// decision numbering the same on every re-execution
		vals := e.feasibleValues(t, signed, lo, hi, 256, what)
		conds := make([]*smt.Term, 0, len(vals))
		for _, k := range vals {
			conds = append(conds, e.ctx.Eq(t, e.ctx.BV(uint64(int64(k)), t.W)))
		}
		if len(conds) == 0 {
			panic(abortPath{kind: "infeasible"})
		}
		return vals[e.choose(conds, true)]
	}
	conds := make([]*smt.Term, 0, hi-lo+1)
	for k := lo; k <= hi; k++ {
		conds = append(conds, e.ctx.Eq(t, e.ctx.BV(uint64(int64(k)), t.W)))
	}
	// caller has established lo <= t <= hi, so the split is exhaustive
	return lo + e.choose(conds, true)
}

// feasibleValues enumerates all values of t (within [lo,hi]) that the path condition
// allows, by repeated solver queries; more than max values = unsupported.
func (e *Engine) feasibleValues(t *smt.Term, signed bool, lo, hi, max int, what string) []int {
	var vals []int
	excl := e.ctx.True
	for {
		r, m := e.sol.Check(e.pc, excl, e.ndTerms, true)
		if r == smt.Unsat {
			break
		}
		if r != smt.Sat || m == nil {
			e.unsupported("enumerating feasible values for %s: solver unknown", what)
		}
		raw := e.ctx.Eval(t, m, map[int]uint64{})
		v := int(raw)
		if signed {
			sh := uint(64 - t.W)
			v = int(int64(raw<<sh) >> sh)
		}
		if v < lo || v > hi {
			e.unsupported("enumerating feasible values for %s: model value %d outside [%d,%d]", what, v, lo, hi)
		}
		vals = append(vals, v)
		if len(vals) > max {
			e.unsupported("concretisation range too large for %s (more than %d feasible values)", what, max)
		}
		excl = e.ctx.And(excl, e.ctx.Not(e.ctx.Eq(t, e.ctx.BV(uint64(int64(v)), t.W))))
	}
	sort.Ints(vals)
	return vals
}

func (e *Engine) sliceOp(f *frame, x *ssa.Slice) Value {
	base := e.get(f, x.X)
	var lo, hi, max *smt.Term
	if x.Low != nil {
		lo = e.toInt64(e.get(f, x.Low).(*smt.Term), x.Low.Type())
	}
	if x.High != nil {
		hi = e.toInt64(e.get(f, x.High).(*smt.Term), x.High.Type())
	}
	if x.Max != nil {
		max = e.toInt64(e.get(f, x.Max).(*smt.Term), x.Max.Type())
	}
	var arr *Obj
	off, ln, cp := 0, 0, 0
	isStr := false
	var str Str
	switch b := base.(type) {
	case Slice:
		arr, off, ln, cp = b.Arr, b.Off, b.Len, b.Cap
	case Str:
		isStr, str = true, b
		ln, cp = b.Len(), b.Len()
	case Ptr:
		if b.Obj == nil {
			e.goPanicRT("invalid memory address or nil pointer dereference")
		}
		arr, ln, cp = b.Obj, len(b.Obj.Sub), len(b.Obj.Sub)
	default:
		e.unsupported("Slice on %T", base)
	}
	if lo == nil {
		lo = e.intC(0)
	}
	if hi == nil {
		hi = e.intC(ln)
	}
	limit := cp
	if isStr {
		limit = ln
	}
	if max != nil {
		// 0 <= lo <= hi <= max <= cap
		bad := e.ctx.Not(e.ctx.Cmp(smt.OpBVUle, max, e.intC(cp)))
		e.check(bad, fmt.Sprintf("slice bounds out of range [::%s] with capacity %d", termStr(max), cp))
		limit = e.concretize(max, true, 0, cp, "slice max")
	}
	// hi in [0, limit]  (unsigned compare catches negatives)
	bad := e.ctx.Not(e.ctx.Cmp(smt.OpBVUle, hi, e.intC(limit)))
	e.check(bad, fmt.Sprintf("slice bounds out of range [:%s] with capacity %d", termStr(hi), limit))
	h := e.concretize(hi, true, 0, limit, "slice high bound")
	bad = e.ctx.Not(e.ctx.Cmp(smt.OpBVUle, lo, e.intC(h)))
	e.check(bad, fmt.Sprintf("slice bounds out of range [%s:%d]", termStr(lo), h))
	l := e.concretize(lo, true, 0, h, "slice low bound")
	if isStr {
		return str.slice(l, h)
	}
	newCap := cp - l
	if max != nil {
		newCap = limit - l
	}
	if arr == nil {
		return Slice{}
	}
	return Slice{Arr: arr, Off: off + l, Len: h - l, Cap: newCap}
}

func termStr(t *smt.Term) string {
	if c, ok := concInt(t); ok {
		return fmt.Sprint(c)
	}
	return "<symbolic>"
}

func (e *Engine) makeSlice(f *frame, x *ssa.MakeSlice) Value {
	lt := e.toInt64(e.get(f, x.Len).(*smt.Term), x.Len.Type())
	ct := e.toInt64(e.get(f, x.Cap).(*smt.Term), x.Cap.Type())
	elem := x.Type().Underlying().(*types.Slice).Elem()
	const maxAlloc = 1 << 20
	bad := e.ctx.Not(e.ctx.Cmp(smt.OpBVUle, lt, e.intC(maxAlloc)))
	if !lt.IsConst() {
		// negative or huge length panics in Go ("makeslice: len out of range") – we treat
		// every length above maxAlloc as that panic as well only when it is negative; a
		// feasible huge positive length is reported as out of the engine's bound.
		neg := e.ctx.Cmp(smt.OpBVSlt, lt, e.intC(0))
		e.check(neg, "makeslice: len out of range")
		if e.branch(bad) {
			e.bigAlloc("length")
		}
	} else if !bad.IsFalse() {
		if lt.Signed() < 0 {
			e.goPanicRT("makeslice: len out of range")
		}
		e.unsupported("make with length %d above engine bound", lt.Signed())
	}
	n := e.concretizeLen(lt, "make length")
	c := n
	if x.Cap != x.Len {
		bad := e.ctx.Or(e.ctx.Cmp(smt.OpBVSlt, ct, e.intC(n)), e.ctx.Cmp(smt.OpBVSlt, ct, e.intC(0)))
		e.check(bad, "makeslice: cap out of range")
		if !ct.IsConst() && e.branch(e.ctx.Not(e.ctx.Cmp(smt.OpBVUle, ct, e.intC(maxAlloc)))) {
			e.bigAlloc("capacity")
		}
		if cc, ok := concInt(ct); ok {
			c = cc
		} else {
			// a symbolic capacity (<= 2^20) only affects when append reallocates, not what
			// the program computes: use the length
			c = n
		}
	}
	arr := e.newArrayObj(elem, c)
	return Slice{Arr: arr, Off: 0, Len: n, Cap: c}
}

// concretizeLen enumerates feasible values of a non-negative symbolic length via the solver.
func (e *Engine) concretizeLen(t *smt.Term, what string) int {
	if c, ok := concInt(t); ok {
		return c
	}
	// find an upper bound by asking the solver for feasible values one at a time
	limit := e.cfg.Params["__maxsymlen"]
	if limit == 0 {
		limit = 256
	}
	// exhaustive only if t <= limit is implied
	over := e.ctx.Not(e.ctx.Cmp(smt.OpBVUle, t, e.intC(limit)))
	if e.branch(over) {
		e.unsupported("symbolic %s may exceed %d", what, limit)
	}
	return e.concretize(t, true, 0, limit, what)
}

// tolerantCall runs an initialiser call of a library package; if the engine cannot
// execute it, the result is the zero value (the variable stays uninitialised).
func (e *Engine) tolerantCall(f *frame, x *ssa.Call) (r Value) {
	depth, sl := e.depth, len(e.stack)
	defer func() {
		if rec := recover(); rec != nil {
			switch rec.(type) {
			case abortPath, *goPanic:
			default:
				if _, ok := rec.(string); !ok {
					if _, ok2 := rec.(error); !ok2 {
						panic(rec)
					}
				}
			}
			e.stack = e.stack[:sl]
			e.depth = depth
			res := x.Call.Signature().Results()
			switch res.Len() {
			case 0:
				r = nil
			case 1:
				r = e.zero(res.At(0).Type())
			default:
				r = e.zero(res)
			}
		}
	}()
	return e.call(f, &x.Call)
}

func isScalarType(t types.Type) bool {
	b, ok := t.Underlying().(*types.Basic)
	return ok && b.Info()&(types.IsInteger|types.IsBoolean) != 0
}

// bigAlloc: a make() whose size is controlled by symbolic input can exceed 2^20 elements.
// Harnesses that ask for it (param __alloc_is_bug) get a finding (an input-controlled
// allocation is how one request exhausts memory: a fatal error no recover catches);
// otherwise the path is out of the engine's bound.
func (e *Engine) bigAlloc(what string) {
	if e.cfg.Params["__alloc_is_bug"] == 1 {
		e.addFinding("alloc", "allocation whose "+what+" is controlled by the input can exceed 1048576 elements", e.stackNames())
		panic(abortPath{kind: "stop"})
	}
	e.unsupported("make with symbolic %s above %d", what, 1<<20)
}
