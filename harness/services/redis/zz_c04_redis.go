//go:build verif

package redis

import (
	"context"
	"io"
	"net"
	"time"

	"github.com/honeytrap/honeytrap/event"
)

type zzRCut struct {
	data []byte
	pos  int
	cut  int
	cut2 int // second cut (0: none); thorough tier
	out  []byte
}

func (c *zzRCut) Read(b []byte) (int, error) {
	if c.pos >= len(c.data) {
		return 0, io.EOF
	}
	end := len(c.data)
	if c.pos < c.cut {
		end = c.cut
	} else if c.cut2 > c.cut && c.pos < c.cut2 {
		end = c.cut2
	}
	n := copy(b, c.data[c.pos:end])
	c.pos += n
	return n, nil
}
func (c *zzRCut) Write(b []byte) (int, error)        { c.out = append(c.out, b...); return len(b), nil }
func (c *zzRCut) Close() error                       { return nil }
func (c *zzRCut) LocalAddr() net.Addr                { return &net.TCPAddr{IP: net.IPv4(10, 0, 0, 1), Port: 6379} }
func (c *zzRCut) RemoteAddr() net.Addr               { return &net.TCPAddr{IP: net.IPv4(10, 9, 9, 9), Port: 40000} }
func (c *zzRCut) SetDeadline(t time.Time) error      { return nil }
func (c *zzRCut) SetReadDeadline(t time.Time) error  { return nil }
func (c *zzRCut) SetWriteDeadline(t time.Time) error { return nil }

type zzRRec struct{ evs []event.Event }

func (r *zzRRec) Send(e event.Event) { r.evs = append(r.evs, e) }

// C04/redis: two pipelined commands (RESP arrays; the first with a symbolic 2-byte
// argument) in one stream split at any position: one event per command, in order.
func zzH_C04_redis() {
	arg := zzString(2)
	for j := 0; j < 2; j++ {
		zzAssume(zzAnd(arg[j] > 0x20, arg[j] < 0x7f))
	}
	first := []string{"*2\r\n$3\r\nGET\r\n$2\r\n" + arg + "\r\n", "*1\r\n$4\r\nPING\r\n"}[zzLen(0, 1)]
	wantFirst := []string{"GET", "PING"}
	idx := 0
	if first[1] == '1' {
		idx = 1
	}
	stream := []byte(first + "*1\r\n$4\r\nINFO\r\n")
	cut := zzLen(1, len(stream))
	cut2 := 0
	if zzParam("CUTS", 1) == 2 && cut < len(stream) {
		cut2 = zzLen(cut, len(stream)) // cut2 == cut: no second cut
	}
	rec := &zzRRec{}
	s := &redisService{}
	s.SetChannel(rec)
	s.Handle(context.Background(), &zzRCut{data: stream, cut: cut, cut2: cut2})
	var got []string
	for _, e := range rec.evs {
		m := event.ToMap(e)
		if c, ok := m["redis.command"].(string); ok {
			got = append(got, c)
		}
	}
	zzAssert(len(got) == 2, "each complete command produces exactly one event, however the stream is segmented")
	if len(got) == 2 {
		zzAssert(got[0] == wantFirst[idx] && got[1] == "INFO", "the events carry the commands sent, in order")
	}
}

// C01+C09/bytes-redis: any N bytes followed by the client going away.
func zzH_C09_bytes_redis() {
	n := zzLen(0, zzParam("N", 3))
	data := zzBytes(n)
	s := &redisService{}
	s.SetChannel(&zzRRec{})
	base := zzLive()
	zzUnwindIn("redis", 4*n+8, true)
	zzDidPanic(func() { s.Handle(context.Background(), &zzRCut{data: data, cut: n}) })
	zzUnwindIn("", 0, false)
	zzQuiesce()
	zzAssert(zzLive() == base, "no goroutine created on the connection's behalf outlives the handler")
}
