package sx

import (
	"fmt"
	"go/types"
	"strings"

	"gosx/smt"

	"golang.org/x/tools/go/ssa"
)

type intrinsic func(e *Engine, args []Value, fn *ssa.Function) Value

var intrinsics = map[string]intrinsic{}

func reg(name string, f intrinsic) { intrinsics[name] = f }

func (e *Engine) posOfCaller() string {
	// position of the call site in the harness (the frame below the intrinsic)
	if e.curPosTok.IsValid() {
		p := e.prog.Fset.Position(e.curPosTok)
		f := p.Filename
		if i := strings.LastIndexByte(f, '/'); i >= 0 {
			f = f[i+1:]
		}
		return fmt.Sprintf("%s:%d", f, p.Line)
	}
	return "?"
}

func strArg(e *Engine, v Value) string {
	s := v.(Str)
	if !s.IsConcrete() {
		return "<symbolic>"
	}
	return s.Concrete()
}

func init() {
	// ---- harness API (functions named zz* in any package) are matched by suffix in lookupHarnessAPI ----
	reg("errors.New", func(e *Engine, args []Value, fn *ssa.Function) Value {
		// keep real semantics (pointer identity) by running the body
		return e.callFunction(fn, args, nil)
	})
	reg("internal/bytealg.IndexByte", func(e *Engine, args []Value, fn *ssa.Function) Value {
		return e.indexByte(e.sliceBytes(args[0].(Slice)), args[1].(*smt.Term))
	})
	reg("internal/bytealg.IndexByteString", func(e *Engine, args []Value, fn *ssa.Function) Value {
		return e.indexByte(e.strBytes(args[0].(Str)), args[1].(*smt.Term))
	})
	reg("internal/bytealg.LastIndexByte", func(e *Engine, args []Value, fn *ssa.Function) Value {
		return e.lastIndexByte(e.sliceBytes(args[0].(Slice)), args[1].(*smt.Term))
	})
	reg("internal/bytealg.LastIndexByteString", func(e *Engine, args []Value, fn *ssa.Function) Value {
		return e.lastIndexByte(e.strBytes(args[0].(Str)), args[1].(*smt.Term))
	})
	reg("internal/bytealg.Count", func(e *Engine, args []Value, fn *ssa.Function) Value {
		return e.countByte(e.sliceBytes(args[0].(Slice)), args[1].(*smt.Term))
	})
	reg("internal/bytealg.CountString", func(e *Engine, args []Value, fn *ssa.Function) Value {
		return e.countByte(e.strBytes(args[0].(Str)), args[1].(*smt.Term))
	})
	reg("internal/bytealg.Equal", func(e *Engine, args []Value, fn *ssa.Function) Value {
		a, b := args[0].(Slice), args[1].(Slice)
		return e.strEq(e.mkStr(e.sliceBytes(a)), e.mkStr(e.sliceBytes(b)))
	})
	reg("internal/bytealg.Compare", func(e *Engine, args []Value, fn *ssa.Function) Value {
		a, b := e.mkStr(e.sliceBytes(args[0].(Slice))), e.mkStr(e.sliceBytes(args[1].(Slice)))
		return e.compareStr(a, b)
	})
	reg("internal/bytealg.CompareString", func(e *Engine, args []Value, fn *ssa.Function) Value {
		return e.compareStr(args[0].(Str), args[1].(Str))
	})
	reg("internal/bytealg.Index", func(e *Engine, args []Value, fn *ssa.Function) Value {
		return e.indexSub(e.sliceBytes(args[0].(Slice)), e.sliceBytes(args[1].(Slice)))
	})
	reg("internal/bytealg.IndexString", func(e *Engine, args []Value, fn *ssa.Function) Value {
		return e.indexSub(e.strBytes(args[0].(Str)), e.strBytes(args[1].(Str)))
	})
	reg("internal/bytealg.MakeNoZero", func(e *Engine, args []Value, fn *ssa.Function) Value {
		n, ok := concInt(args[0].(*smt.Term))
		if !ok {
			n = e.concretizeLen(args[0].(*smt.Term), "MakeNoZero length")
		}
		arr := e.newArrayObj(types.Typ[types.Uint8], n)
		return Slice{Arr: arr, Len: n, Cap: n}
	})
	reg("internal/bytealg.Cutover", func(e *Engine, args []Value, fn *ssa.Function) Value { return e.intC(1 << 30) })
	// high-level shortcuts (avoid Rabin-Karp etc.)
	reg("strings.Index", func(e *Engine, args []Value, fn *ssa.Function) Value {
		return e.indexSub(e.strBytes(args[0].(Str)), e.strBytes(args[1].(Str)))
	})
	reg("bytes.Index", func(e *Engine, args []Value, fn *ssa.Function) Value {
		return e.indexSub(e.sliceBytes(args[0].(Slice)), e.sliceBytes(args[1].(Slice)))
	})
	reg("strings.IndexByte", func(e *Engine, args []Value, fn *ssa.Function) Value {
		return e.indexByte(e.strBytes(args[0].(Str)), args[1].(*smt.Term))
	})
	reg("bytes.IndexByte", func(e *Engine, args []Value, fn *ssa.Function) Value {
		return e.indexByte(e.sliceBytes(args[0].(Slice)), args[1].(*smt.Term))
	})
	reg("bytes.Equal", func(e *Engine, args []Value, fn *ssa.Function) Value {
		a, b := args[0].(Slice), args[1].(Slice)
		return e.strEq(e.mkStr(e.sliceBytes(a)), e.mkStr(e.sliceBytes(b)))
	})
	reg("strings.HasPrefix", func(e *Engine, args []Value, fn *ssa.Function) Value {
		s, p := args[0].(Str), args[1].(Str)
		if s.Len() < p.Len() {
			return e.ctx.False
		}
		return e.strEq(s.slice(0, p.Len()), p)
	})
	reg("strings.HasSuffix", func(e *Engine, args []Value, fn *ssa.Function) Value {
		s, p := args[0].(Str), args[1].(Str)
		if s.Len() < p.Len() {
			return e.ctx.False
		}
		return e.strEq(s.slice(s.Len()-p.Len(), s.Len()), p)
	})
	reg("bytes.HasPrefix", func(e *Engine, args []Value, fn *ssa.Function) Value {
		s, p := args[0].(Slice), args[1].(Slice)
		if s.Len < p.Len {
			return e.ctx.False
		}
		return e.strEq(e.mkStr(e.sliceBytes(Slice{Arr: s.Arr, Off: s.Off, Len: p.Len, Cap: p.Len})), e.mkStr(e.sliceBytes(p)))
	})

	// strings.Builder: avoid unsafe
	reg("(*strings.Builder).String", func(e *Engine, args []Value, fn *ssa.Function) Value {
		b := args[0].(Ptr).Obj
		buf := e.load(e.sub(b, 1)).(Slice)
		return e.mkStr(e.sliceBytes(buf))
	})
	reg("(*strings.Builder).copyCheck", func(e *Engine, args []Value, fn *ssa.Function) Value { return nil })
	reg("unsafe.String", nil)
	delete(intrinsics, "unsafe.String")
	reg("internal/abi.NoEscape", func(e *Engine, args []Value, fn *ssa.Function) Value { return args[0] })
	reg("internal/abi.Escape", func(e *Engine, args []Value, fn *ssa.Function) Value { return args[0] })
	reg("internal/race.Enabled", nil)
	delete(intrinsics, "internal/race.Enabled")
	for _, n := range []string{"internal/race.Acquire", "internal/race.Release", "internal/race.ReleaseMerge", "internal/race.Disable", "internal/race.Enable",
		"internal/race.Read", "internal/race.Write", "internal/race.ReadRange", "internal/race.WriteRange", "runtime.KeepAlive", "runtime.SetFinalizer", "runtime.GC", "runtime.Gosched",
		"internal/godebug.(*Setting).IncNonDefault", "os.runtime_args", "sync.runtime_registerPoolCleanup", "sync.throw", "sync.fatal",
		"internal/poll.runtime_pollServerInit"} {
		reg(n, func(e *Engine, args []Value, fn *ssa.Function) Value { return e.zeroResults(fn) })
	}
	reg("internal/godebug.(*Setting).Value", func(e *Engine, args []Value, fn *ssa.Function) Value { return Str{} })
	reg("internal/godebug.New", func(e *Engine, args []Value, fn *ssa.Function) Value {
		return Ptr{Obj: e.newObj(fn.Signature.Results().At(0).Type().(*types.Pointer).Elem())}
	})
	reg("runtime.Stack", func(e *Engine, args []Value, fn *ssa.Function) Value { return e.intC(0) })
	reg("runtime.Caller", func(e *Engine, args []Value, fn *ssa.Function) Value {
		return Tuple{e.ctx.BV(0, 64), Str{S: "gosx"}, e.intC(0), e.ctx.False}
	})
	reg("runtime.NumGoroutine", func(e *Engine, args []Value, fn *ssa.Function) Value {
		n, _ := e.liveGoroutines()
		return e.intC(n + 1)
	})

	// math/bits are pure Go: run real. unicode/utf8: pure Go: run real.

	// ---- sync ----
	lockOf := func(e *Engine, o *Obj) *lockState {
		m, _ := e.extraCtx["locks"].(map[*Obj]*lockState)
		if m == nil {
			m = map[*Obj]*lockState{}
			e.extraCtx["locks"] = m
		}
		l := m[o]
		if l == nil {
			l = &lockState{}
			m[o] = l
		}
		return l
	}
	reg("(*sync.Mutex).Lock", func(e *Engine, args []Value, fn *ssa.Function) Value {
		l := lockOf(e, args[0].(Ptr).Obj)
		e.yield()
		e.block(func() bool { return !l.w && l.r == 0 }, "sync.Mutex.Lock")
		l.w = true
		e.noteLock(args[0].(Ptr).Obj, true)
		return nil
	})
	reg("(*sync.Mutex).TryLock", func(e *Engine, args []Value, fn *ssa.Function) Value {
		l := lockOf(e, args[0].(Ptr).Obj)
		if l.w {
			return e.ctx.False
		}
		l.w = true
		return e.ctx.True
	})
	reg("(*sync.Mutex).Unlock", func(e *Engine, args []Value, fn *ssa.Function) Value {
		l := lockOf(e, args[0].(Ptr).Obj)
		if !l.w {
			panic(&goPanic{msg: "fatal error: sync: unlock of unlocked mutex", stack: e.stackNames(), val: Iface{T: rtErrType, V: Str{S: "sync: unlock of unlocked mutex"}}})
		}
		l.w = false
		e.noteLock(args[0].(Ptr).Obj, false)
		e.yield()
		return nil
	})
	reg("(*sync.RWMutex).Lock", func(e *Engine, args []Value, fn *ssa.Function) Value {
		l := lockOf(e, args[0].(Ptr).Obj)
		e.block(func() bool { return !l.w && l.r == 0 }, "sync.RWMutex.Lock")
		l.w = true
		e.noteLock(args[0].(Ptr).Obj, true)
		return nil
	})
	reg("(*sync.RWMutex).Unlock", func(e *Engine, args []Value, fn *ssa.Function) Value {
		l := lockOf(e, args[0].(Ptr).Obj)
		l.w = false
		e.noteLock(args[0].(Ptr).Obj, false)
		return nil
	})
	reg("(*sync.RWMutex).RLock", func(e *Engine, args []Value, fn *ssa.Function) Value {
		l := lockOf(e, args[0].(Ptr).Obj)
		e.block(func() bool { return !l.w }, "sync.RWMutex.RLock")
		l.r++
		e.noteLock(args[0].(Ptr).Obj, true)
		return nil
	})
	reg("(*sync.RWMutex).RUnlock", func(e *Engine, args []Value, fn *ssa.Function) Value {
		l := lockOf(e, args[0].(Ptr).Obj)
		l.r--
		e.noteLock(args[0].(Ptr).Obj, false)
		return nil
	})
	reg("(*sync.Once).Do", func(e *Engine, args []Value, fn *ssa.Function) Value {
		l := lockOf(e, args[0].(Ptr).Obj)
		if l.once {
			return nil
		}
		l.once = true
		e.callValue(args[1], nil, nil)
		return nil
	})
	reg("(*sync.WaitGroup).Add", func(e *Engine, args []Value, fn *ssa.Function) Value {
		l := lockOf(e, args[0].(Ptr).Obj)
		n, ok := concInt(args[1].(*smt.Term))
		if !ok {
			e.unsupported("symbolic WaitGroup.Add")
		}
		l.r += n
		return nil
	})
	reg("(*sync.WaitGroup).Done", func(e *Engine, args []Value, fn *ssa.Function) Value {
		l := lockOf(e, args[0].(Ptr).Obj)
		l.r--
		return nil
	})
	reg("(*sync.WaitGroup).Wait", func(e *Engine, args []Value, fn *ssa.Function) Value {
		l := lockOf(e, args[0].(Ptr).Obj)
		e.block(func() bool { return l.r <= 0 }, "sync.WaitGroup.Wait")
		return nil
	})
	// sync.Pool keeps what was Put (LIFO), so that code recycling buffers through a pool
	// really shares them between users, as at run time
	poolOf := func(e *Engine, o *Obj) *[]Value {
		m, _ := e.extraCtx["pools"].(map[*Obj]*[]Value)
		if m == nil {
			m = map[*Obj]*[]Value{}
			e.extraCtx["pools"] = m
		}
		if m[o] == nil {
			m[o] = &[]Value{}
		}
		return m[o]
	}
	reg("(*sync.Pool).Get", func(e *Engine, args []Value, fn *ssa.Function) Value {
		p := args[0].(Ptr).Obj
		if l := poolOf(e, p); len(*l) > 0 {
			v := (*l)[len(*l)-1]
			*l = (*l)[:len(*l)-1]
			return v
		}
		st := p.T.Underlying().(*types.Struct)
		for i := 0; i < st.NumFields(); i++ {
			if st.Field(i).Name() == "New" {
				nf := e.load(e.sub(p, i))
				if cl, ok := nf.(*Closure); ok && cl != nil {
					return e.callValue(cl, nil, nil)
				}
			}
		}
		return Iface{}
	})
	reg("(*sync.Pool).Put", func(e *Engine, args []Value, fn *ssa.Function) Value {
		l := poolOf(e, args[0].(Ptr).Obj)
		*l = append(*l, args[1])
		return nil
	})
	// sync.Map as an association list stored in the side table
	smap := func(e *Engine, o *Obj) *MapObj {
		m, _ := e.extraCtx["syncmaps"].(map[*Obj]*MapObj)
		if m == nil {
			m = map[*Obj]*MapObj{}
			e.extraCtx["syncmaps"] = m
		}
		x := m[o]
		if x == nil {
			e.nextObj++
			x = &MapObj{ID: e.nextObj, T: types.NewMap(types.NewInterfaceType(nil, nil), types.NewInterfaceType(nil, nil)), epoch: e.epoch}
			m[o] = x
		}
		return x
	}
	reg("(*sync.Map).Store", func(e *Engine, args []Value, fn *ssa.Function) Value {
		e.yield()
		e.mapUpdate(smap(e, args[0].(Ptr).Obj), args[1], args[2])
		return nil
	})
	reg("(*sync.Map).Load", func(e *Engine, args []Value, fn *ssa.Function) Value {
		e.yield()
		m := smap(e, args[0].(Ptr).Obj)
		i := e.mapFind(m, args[1])
		if i < 0 {
			return Tuple{Iface{}, e.ctx.False}
		}
		return Tuple{m.Vals[i], e.ctx.True}
	})
	reg("(*sync.Map).LoadOrStore", func(e *Engine, args []Value, fn *ssa.Function) Value {
		e.yield()
		m := smap(e, args[0].(Ptr).Obj)
		i := e.mapFind(m, args[1])
		if i < 0 {
			m.Keys = append(m.Keys, args[1])
			m.Vals = append(m.Vals, args[2])
			return Tuple{args[2], e.ctx.False}
		}
		return Tuple{m.Vals[i], e.ctx.True}
	})
	reg("(*sync.Map).Delete", func(e *Engine, args []Value, fn *ssa.Function) Value {
		e.mapDelete(smap(e, args[0].(Ptr).Obj), args[1])
		return nil
	})
	reg("(*sync.Map).Range", func(e *Engine, args []Value, fn *ssa.Function) Value {
		m := smap(e, args[0].(Ptr).Obj)
		keys, vals := append([]Value{}, m.Keys...), append([]Value{}, m.Vals...)
		for i := range keys {
			r := e.callValue(args[1], []Value{keys[i], vals[i]}, nil).(*smt.Term)
			if !e.branch(r) {
				break
			}
		}
		return nil
	})

	// ---- sync/atomic (single baton: plain loads/stores) ----
	atomicLoad := func(e *Engine, args []Value, fn *ssa.Function) Value { return e.load(args[0].(Ptr).Obj) }
	atomicStore := func(e *Engine, args []Value, fn *ssa.Function) Value {
		e.store(args[0].(Ptr).Obj, args[1])
		return nil
	}
	atomicAdd := func(e *Engine, args []Value, fn *ssa.Function) Value {
		o := args[0].(Ptr).Obj
		v := e.ctx.Add(e.load(o).(*smt.Term), args[1].(*smt.Term))
		e.store(o, v)
		return v
	}
	atomicCAS := func(e *Engine, args []Value, fn *ssa.Function) Value {
		o := args[0].(Ptr).Obj
		cur := e.load(o)
		if e.branch(e.valEq(cur, args[1], nil)) {
			e.store(o, args[2])
			return e.ctx.True
		}
		return e.ctx.False
	}
	atomicSwap := func(e *Engine, args []Value, fn *ssa.Function) Value {
		o := args[0].(Ptr).Obj
		old := e.load(o)
		e.store(o, args[1])
		return old
	}
	for _, t := range []string{"Int32", "Int64", "Uint32", "Uint64", "Uintptr", "Pointer"} {
		reg("sync/atomic.Load"+t, atomicLoad)
		reg("sync/atomic.Store"+t, atomicStore)
		reg("sync/atomic.Add"+t, atomicAdd)
		reg("sync/atomic.CompareAndSwap"+t, atomicCAS)
		reg("sync/atomic.Swap"+t, atomicSwap)
	}
	// typed atomics (atomic.Int32 etc.) are implemented in Go on top of the above: run real.
	reg("(*sync/atomic.Value).Load", func(e *Engine, args []Value, fn *ssa.Function) Value {
		o := args[0].(Ptr).Obj
		v := e.load(e.sub(o, 0))
		if iv, ok := v.(Iface); ok {
			return iv
		}
		return Iface{}
	})
	reg("(*sync/atomic.Value).Store", func(e *Engine, args []Value, fn *ssa.Function) Value {
		o := args[0].(Ptr).Obj
		e.store(e.sub(o, 0), args[1])
		return nil
	})

	// ---- fmt (mini formatter) ----
	reg("fmt.Sprintf", func(e *Engine, args []Value, fn *ssa.Function) Value {
		return e.sprintf(args[0].(Str), args[1].(Slice))
	})
	reg("fmt.Errorf", func(e *Engine, args []Value, fn *ssa.Function) Value {
		s := e.sprintf(args[0].(Str), args[1].(Slice))
		return Iface{T: gosxErrType, V: s}
	})
	reg("fmt.Sprint", func(e *Engine, args []Value, fn *ssa.Function) Value {
		return e.sprint(args[0].(Slice), false)
	})
	reg("fmt.Sprintln", func(e *Engine, args []Value, fn *ssa.Function) Value {
		s := e.sprint(args[0].(Slice), true)
		return e.mkStr(append(append([]*smt.Term{}, e.strBytes(s)...), e.ctx.BV('\n', 8)))
	})
	for _, n := range []string{"fmt.Printf", "fmt.Println", "fmt.Print"} {
		reg(n, func(e *Engine, args []Value, fn *ssa.Function) Value { return Tuple{e.intC(0), Iface{}} })
	}
	reg("fmt.Fprintf", func(e *Engine, args []Value, fn *ssa.Function) Value {
		s := e.sprintf(args[1].(Str), args[2].(Slice))
		return e.writeTo(args[0].(Iface), s)
	})
	reg("fmt.Fprint", func(e *Engine, args []Value, fn *ssa.Function) Value {
		return e.writeTo(args[0].(Iface), e.sprint(args[1].(Slice), false))
	})
	reg("fmt.Fprintln", func(e *Engine, args []Value, fn *ssa.Function) Value {
		s := e.sprint(args[1].(Slice), true)
		return e.writeTo(args[0].(Iface), e.mkStr(append(append([]*smt.Term{}, e.strBytes(s)...), e.ctx.BV('\n', 8))))
	})

	// quoting of symbolic strings (error messages): approximated, never the subject of a property
	quoteI := func(e *Engine, args []Value, fn *ssa.Function) Value { return e.quote(args[0].(Str)) }
	reg("strconv.Quote", quoteI)
	reg("strconv.QuoteToASCII", quoteI)
	reg("strconv.quoteWith", quoteI)

	reg("syscall.EpollCtl", func(e *Engine, args []Value, fn *ssa.Function) Value { return Iface{} })
	// reflect / misc
	reg("reflect.DeepEqual", func(e *Engine, args []Value, fn *ssa.Function) Value {
		return e.deepEq(args[0], args[1], 0)
	})
	reg("reflect.TypeOf", func(e *Engine, args []Value, fn *ssa.Function) Value { return Iface{} })
	reg("os.Getenv", func(e *Engine, args []Value, fn *ssa.Function) Value { return Str{} })
	reg("os.Getpid", func(e *Engine, args []Value, fn *ssa.Function) Value { return e.intC(4242) })

	// math/rand & crypto/rand: fresh unconstrained values
	reg("math/rand.Uint32", func(e *Engine, args []Value, fn *ssa.Function) Value {
		return e.newNondetEnv("u32", 32, "math/rand.Uint32")
	})
	reg("math/rand.Int", func(e *Engine, args []Value, fn *ssa.Function) Value {
		v := e.newNondetEnv("u64", 64, "math/rand.Int")
		return e.ctx.Bin(smt.OpBVAnd, v, e.ctx.BV(1<<63-1, 64))
	})
	reg("math/rand.Intn", func(e *Engine, args []Value, fn *ssa.Function) Value {
		v := e.newNondetEnv("u64", 64, "math/rand.Intn")
		n := args[0].(*smt.Term)
		e.assume(e.ctx.And(e.ctx.Cmp(smt.OpBVSle, e.intC(0), v), e.ctx.Cmp(smt.OpBVSlt, v, n)), "math/rand.Intn contract")
		return v
	})
	reg("math/rand.Seed", func(e *Engine, args []Value, fn *ssa.Function) Value { return nil })
	// hash compression functions (assembly): not executed; the digest value is an opaque constant.
	// No harness compares a digest with a reference (MD5 of the JA3 string is outside C13's claim).
	for _, n := range []string{"crypto/sha1.block", "crypto/sha1.blockAMD64", "crypto/md5.block", "crypto/sha256.block", "crypto/sha512.block"} {
		reg(n, func(e *Engine, args []Value, fn *ssa.Function) Value { return nil })
	}
	reg("crypto/internal/boring/sig.StandardCrypto", func(e *Engine, args []Value, fn *ssa.Function) Value { return nil })
	reg("crypto/internal/boring/sig.BoringCrypto", func(e *Engine, args []Value, fn *ssa.Function) Value { return nil })
}

type uniqueEnt struct {
	v Value
	o *Obj
}

func init() {
	reg("unique.Make", func(e *Engine, args []Value, fn *ssa.Function) Value {
		for _, u := range e.uniqueTab {
			if e.valEqNoFork(u.v, args[0]) {
				return &Struct{F: []Value{Ptr{Obj: u.o}}}
			}
		}
		o := e.newObj(fn.Signature.Params().At(0).Type())
		o.epoch = 0
		e.store(o, args[0])
		e.uniqueTab = append(e.uniqueTab, uniqueEnt{args[0], o})
		return &Struct{F: []Value{Ptr{Obj: o}}}
	})
}

type lockState struct {
	w    bool
	r    int
	once bool
}

func (e *Engine) noteLock(o *Obj, acquire bool) {
	g := e.cur
	if g.held == nil {
		g.held = map[*Obj]bool{}
	}
	if acquire {
		g.held[o] = true
	} else {
		delete(g.held, o)
	}
}

type mapAccess struct {
	g     int
	write bool
	held  map[*Obj]bool
	where string
}

// noteMapAccess records accesses for the lock-set check (enabled by param __lockset).
func (e *Engine) noteMapAccess(m *MapObj, write bool) {
	if e.cfg.Params["__lockset"] == 0 || len(e.goroutines) < 2 {
		return
	}
	acc, _ := e.extraCtx["mapacc"].(map[*MapObj][]mapAccess)
	if acc == nil {
		acc = map[*MapObj][]mapAccess{}
		e.extraCtx["mapacc"] = acc
	}
	held := map[*Obj]bool{}
	for k := range e.cur.held {
		held[k] = true
	}
	cur := mapAccess{g: e.cur.id, write: write, held: held, where: e.where()}
	for _, a := range acc[m] {
		if a.g == cur.g || (!a.write && !cur.write) {
			continue
		}
		if a.g == 0 || cur.g == 0 {
			continue // accesses by the harness goroutine are set-up / inspection
		}
		common := false
		for k := range a.held {
			if cur.held[k] {
				common = true
			}
		}
		if !common {
			e.addFinding("race", fmt.Sprintf("unsynchronised concurrent map access (lock-set empty intersection): g%d %s / g%d %s", a.g, a.where, cur.g, cur.where), e.stackNames())
			panic(abortPath{kind: "stop"})
		}
	}
	acc[m] = append(acc[m], cur)
}

// ---- byte search primitives with symbolic content ----

func (e *Engine) indexByte(bs []*smt.Term, c *smt.Term) Value {
	conds := make([]*smt.Term, 0, len(bs)+1)
	none := e.ctx.True
	for _, b := range bs {
		eq := e.ctx.Eq(b, c)
		conds = append(conds, e.ctx.And(none, eq))
		none = e.ctx.And(none, e.ctx.Not(eq))
	}
	conds = append(conds, none)
	i := e.choose(conds, true)
	if i == len(bs) {
		return e.intC(-1)
	}
	return e.intC(i)
}

func (e *Engine) lastIndexByte(bs []*smt.Term, c *smt.Term) Value {
	conds := make([]*smt.Term, 0, len(bs)+1)
	none := e.ctx.True
	for i := len(bs) - 1; i >= 0; i-- {
		eq := e.ctx.Eq(bs[i], c)
		conds = append(conds, e.ctx.And(none, eq))
		none = e.ctx.And(none, e.ctx.Not(eq))
	}
	conds = append(conds, none)
	i := e.choose(conds, true)
	if i == len(bs) {
		return e.intC(-1)
	}
	return e.intC(len(bs) - 1 - i)
}

func (e *Engine) countByte(bs []*smt.Term, c *smt.Term) Value {
	r := e.intC(0)
	for _, b := range bs {
		r = e.ctx.Add(r, e.ctx.Ite(e.ctx.Eq(b, c), e.intC(1), e.intC(0)))
	}
	if r.IsConst() {
		return r
	}
	// concretise (callers use it for allocation sizes)
	return e.intC(e.concretize(r, true, 0, len(bs), "Count"))
}

func (e *Engine) indexSub(s, sep []*smt.Term) Value {
	n, m := len(s), len(sep)
	if m == 0 {
		return e.intC(0)
	}
	if m > n {
		return e.intC(-1)
	}
	conds := make([]*smt.Term, 0, n-m+2)
	none := e.ctx.True
	for i := 0; i+m <= n; i++ {
		eq := e.ctx.True
		for j := 0; j < m; j++ {
			eq = e.ctx.And(eq, e.ctx.Eq(s[i+j], sep[j]))
		}
		conds = append(conds, e.ctx.And(none, eq))
		none = e.ctx.And(none, e.ctx.Not(eq))
	}
	conds = append(conds, none)
	i := e.choose(conds, true)
	if i == len(conds)-1 {
		return e.intC(-1)
	}
	return e.intC(i)
}

func (e *Engine) compareStr(a, b Str) Value {
	lt := e.strLess(a, b, false)
	eq := e.strEq(a, b)
	return e.ctx.Ite(eq, e.intC(0), e.ctx.Ite(lt, e.intC(-1), e.intC(1)))
}

// writeTo calls w.Write(bytes of s).
func (e *Engine) writeTo(w Iface, s Str) Value {
	if w.T == nil {
		e.goPanicRT("nil io.Writer")
	}
	fn := e.prog.LookupMethod(w.T, nil, "Write")
	if fn == nil {
		e.unsupported("Write method not found on %s", w.T)
	}
	return e.callValue(&Closure{Fn: fn}, []Value{w.V, e.bytesToSlice(e.strBytes(s))}, nil)
}
