#!/usr/bin/env python3
"""Rebuild the seeded-change table of DESIGN.md (between the SEED-TABLE markers) from
seeded/RESULTS.tsv and the meta.json of every seed. Notes for individual seeds (why one is
missed or not transferable) are kept in seeded/NOTES.json."""
import json, os, re, sys
root = os.path.dirname(os.path.dirname(os.path.abspath(__file__)))
res = {}
for line in open(os.path.join(root, 'seeded/RESULTS.tsv')):
    f = line.rstrip('\n').split('\t')
    if len(f) >= 2:
        res[f[0]] = f
notes = {}
np_ = os.path.join(root, 'seeded/NOTES.json')
if os.path.exists(np_):
    notes = json.load(open(np_))
rows = []
stats = {'caught': 0, 'missed': 0, 'inconclusive': 0, 'n/a': 0}
for name in sorted(os.listdir(os.path.join(root, 'seeded'))):
    d = os.path.join(root, 'seeded', name)
    if not os.path.isdir(d):
        continue
    meta = {}
    if os.path.exists(os.path.join(d, 'meta.json')):
        meta = json.load(open(os.path.join(d, 'meta.json')))
    summ = re.sub(r'\s+', ' ', meta.get('summary', ''))
    summ = summ.replace('|', '/')
    if len(summ) > 170:
        summ = summ[:167] + '...'
    r = res.get(name)
    if name in notes and notes[name].get('outcome'):
        out = notes[name]['outcome']
        key = notes[name].get('class', 'n/a')
    elif r is None:
        out, key = 'not run', 'n/a'
    elif r[1].startswith('patch-does-not-apply'):
        out, key = 'not transferable: the patch no longer applies to the repaired tree', 'n/a'
    elif r[1] == 'rc=1':
        m = re.search(r'harness=(\S+) kind=(\w+)', r[3] if len(r) > 3 else '')
        out = '**caught** `%s` (%s)' % (m.group(1), m.group(2)) if m else '**caught**'
        key = 'caught'
    elif r[1] == 'rc=0':
        out, key = '**missed**', 'missed'
    else:
        out, key = 'inconclusive (%s): not a VIOLATION' % r[1], 'inconclusive'
    if name in notes and notes[name].get('note'):
        out += ' — ' + notes[name]['note']
    stats[key] = stats.get(key, 0) + 1
    rows.append('| %s | %s | %s |' % (name, summ, out))
table = ['| seed | change | outcome (quick tier) |', '|---|---|---|'] + rows
table.append('')
table.append('Totals: %d caught, %d missed, %d inconclusive, %d not transferable / not run.' % (stats['caught'], stats['missed'], stats['inconclusive'], stats['n/a']))
p = os.path.join(root, 'DESIGN.md')
s = open(p).read()
a, b = '<!-- SEED-TABLE-BEGIN -->', '<!-- SEED-TABLE-END -->'
if a in s and b in s:
    s = s[:s.index(a) + len(a)] + '\n' + '\n'.join(table) + '\n' + s[s.index(b):]
    open(p, 'w').write(s)
print('\n'.join(table[-3:]))
