//go:build verif

package vnc

import (
	"context"
	"image"
	"io"
	"net"
	"time"

	"github.com/honeytrap/honeytrap/event"
)

type zzNullCh struct{ n int }

func (c *zzNullCh) Send(e event.Event) { c.n++ }

// zzGConn: a client that has sent data, then stays silent (Read blocks) until the gate is
// closed, after which the connection reads as closed by the peer.
type zzGConn struct {
	data   []byte
	pos    int
	gate   chan struct{}
	closed bool
}

func (c *zzGConn) Read(b []byte) (int, error) {
	if c.pos >= len(c.data) {
		<-c.gate
		return 0, io.EOF
	}
	n := copy(b, c.data[c.pos:])
	c.pos += n
	return n, nil
}
func (c *zzGConn) Write(b []byte) (int, error)        { return len(b), nil }
func (c *zzGConn) Close() error                       { c.closed = true; return nil }
func (c *zzGConn) LocalAddr() net.Addr                { return &net.TCPAddr{IP: net.IPv4(10, 0, 0, 1), Port: 5900} }
func (c *zzGConn) RemoteAddr() net.Addr               { return &net.TCPAddr{IP: net.IPv4(10, 9, 9, 9), Port: 40000} }
func (c *zzGConn) SetDeadline(t time.Time) error      { return nil }
func (c *zzGConn) SetReadDeadline(t time.Time) error  { return nil }
func (c *zzGConn) SetWriteDeadline(t time.Time) error { return nil }

// C09/vnc-quiet: a client goes through the RFB handshake up to a chosen stage (0..all bytes
// of version line, security type, ClientInit, optionally one FramebufferUpdateRequest, or a
// symbolic command byte), stays silent while TICKS frame ticks pass, then disconnects. The
// handler must return and leave no goroutine behind.
func zzH_C09_vnc() {
	full := []byte("RFB 003.008\n\x01\x01")
	stage := zzLen(0, len(full)+2)
	var data []byte
	switch {
	case stage <= len(full):
		data = full[:stage]
	case stage == len(full)+1:
		// a complete FramebufferUpdateRequest: the frame pusher goroutine is started
		data = append(append([]byte{}, full...), 3, 0, 0, 0, 0, 0, 0, 2, 0, 2)
	default:
		// any command byte (unknown ones end the dialogue)
		cmd := zzU8()
		zzAssume(zzAnd(cmd != 0, zzAnd(cmd != 2, zzAnd(cmd != 4, cmd != 5)))) // struct decoding by reflection is outside the model
		data = append(append([]byte{}, full...), cmd, 0, 0, 0, 0, 0, 0, 2, 0, 2)
	}
	conn := &zzGConn{data: data, gate: make(chan struct{})}
	s := &vncService{c: &zzNullCh{}, li: &LockableImage{Img: image.NewRGBA(image.Rect(0, 0, 2, 2))}, ServerName: "zz"}
	zzTimers(zzParam("TICKS", 20))
	done := false
	base := zzLive()
	go func() {
		s.Handle(context.Background(), conn)
		done = true
	}()
	zzQuiesce() // the client is silent; frame ticks pass
	if !zzSymbolic() {
		time.Sleep(time.Duration(zzParam("TICKS", 20)) * time.Second / 30) // native twin: real ticks
	}
	close(conn.gate)
	zzQuiesce()
	zzAssert(done, "the handler returns once the client has disconnected")
	zzAssert(conn.closed, "the connection is closed")
	zzAssert(zzLive() == base, "no goroutine created on the connection's behalf outlives the handler")
}
