//go:build verif

package network

import (
	"context"
	"net"
	"time"
)

// ---- model of the UDP socket the listener reads from ----
var (
	zzDatagrams [][]byte
	zzSenders   []*net.UDPAddr
	zzNextDgram int
	zzBlock     chan struct{}
)

func zzStubListenUDP(network string, laddr *net.UDPAddr) (*net.UDPConn, error) {
	return new(net.UDPConn), nil
}

// ReadFromUDP delivers the prepared datagrams one after the other, then blocks
func zzStubReadFromUDP(c *net.UDPConn, b []byte) (int, *net.UDPAddr, error) {
	if zzNextDgram >= len(zzDatagrams) {
		<-zzBlock
		return 0, nil, net.ErrClosed
	}
	n := copy(b, zzDatagrams[zzNextDgram])
	a := zzSenders[zzNextDgram]
	zzNextDgram++
	return n, a, nil
}
func zzStubUDPLocalAddr(c *net.UDPConn) net.Addr {
	return &net.UDPAddr{IP: net.IPv4(127, 0, 0, 1), Port: 5300}
}
func zzStubWriteToUDP(c *net.UDPConn, b []byte, addr *net.UDPAddr) (int, error) {
	return len(b), nil
}

// C08/C05/C03 socket-udp: two datagrams from two clients arrive back to back on one UDP
// port; the server accepts both connections first and reads them afterwards (handlers run
// in their own goroutines and may be scheduled late). Each accepted connection must deliver
// exactly the bytes of its own datagram, under its own sender's address.
func zzH_C08_socketudp() {
	d1, d2 := zzBytes(zzLen(1, 3)), zzBytes(zzLen(1, 3))
	o1, o2 := append([]byte{}, d1...), append([]byte{}, d2...)
	a1 := &net.UDPAddr{IP: net.IPv4(127, 0, 0, 1), Port: 40001}
	a2 := &net.UDPAddr{IP: net.IPv4(127, 0, 0, 1), Port: 40002}
	laddr := &net.UDPAddr{IP: net.IPv4(127, 0, 0, 1), Port: 5300}
	var clients []*net.UDPConn
	if zzSymbolic() {
		zzDatagrams, zzSenders, zzNextDgram, zzBlock = [][]byte{d1, d2}, []*net.UDPAddr{a1, a2}, 0, make(chan struct{})
	} else {
		laddr.Port = 0
	}
	li, _ := New()
	sl := li.(*socketListener)
	if !zzSymbolic() {
		// native twin: a real loopback socket; find a free port first
		probe, err := net.ListenUDP("udp", laddr)
		if err != nil {
			return
		}
		laddr = probe.LocalAddr().(*net.UDPAddr)
		probe.Close()
	}
	sl.AddAddress(laddr)
	sl.Start(context.Background())
	if !zzSymbolic() {
		time.Sleep(100 * time.Millisecond)
		for _, d := range [][]byte{d1, d2} {
			c, err := net.DialUDP("udp", nil, laddr)
			if err != nil {
				return
			}
			clients = append(clients, c)
			c.Write(d)
			time.Sleep(50 * time.Millisecond)
		}
	}
	c1, _ := sl.Accept()
	c2, _ := sl.Accept()
	if !zzSymbolic() {
		time.Sleep(100 * time.Millisecond) // let the receive goroutine go round once more
	} else {
		zzQuiesce()
	}
	buf := make([]byte, 16)
	n1, _ := c1.Read(buf)
	got1 := append([]byte{}, buf[:n1]...)
	n2, _ := c2.Read(buf)
	got2 := append([]byte{}, buf[:n2]...)
	eq := func(a, b []byte) bool {
		if len(a) != len(b) {
			return false
		}
		r := true
		for i := range a {
			r = zzAnd(r, a[i] == b[i])
		}
		return r
	}
	zzAssert(eq(got1, o1), "the first accepted connection delivers exactly the first client's datagram, also when further datagrams have arrived meanwhile")
	zzAssert(eq(got2, o2), "the second accepted connection delivers exactly the second client's datagram")
	if zzSymbolic() {
		zzAssert(c1.RemoteAddr().String() == a1.String() && c2.RemoteAddr().String() == a2.String(), "each connection carries its own sender's address")
	}
	for _, c := range clients {
		c.Close()
	}
}
