//go:build verif

package agent

import (
	"encoding"
	"io"
	"net"
	"time"
)

// zzMsgConn: a transport that preserves message boundaries (one Write = one Read),
// which is the contract of the agent's framed transport.
type zzMsgConn struct {
	q [][]byte
}

func (c *zzMsgConn) Write(b []byte) (int, error) {
	cp := make([]byte, len(b))
	copy(cp, b)
	c.q = append(c.q, cp)
	return len(b), nil
}
func (c *zzMsgConn) Read(b []byte) (int, error) {
	if len(c.q) == 0 {
		return 0, io.EOF
	}
	m := c.q[0]
	c.q = c.q[1:]
	return copy(b, m), nil
}
func (c *zzMsgConn) Close() error                       { return nil }
func (c *zzMsgConn) LocalAddr() net.Addr                { return nil }
func (c *zzMsgConn) RemoteAddr() net.Addr               { return nil }
func (c *zzMsgConn) SetDeadline(t time.Time) error      { return nil }
func (c *zzMsgConn) SetReadDeadline(t time.Time) error  { return nil }
func (c *zzMsgConn) SetWriteDeadline(t time.Time) error { return nil }

func zzAddr() net.Addr {
	iplen := []int{4, 16}[zzLen(0, 1)]
	ip := net.IP(zzBytes(iplen))
	port := int(zzU16())
	if zzLen(0, 1) == 0 {
		return &net.TCPAddr{IP: ip, Port: port}
	}
	return &net.UDPAddr{IP: ip, Port: port}
}

func zzBytesEq(a, b []byte) bool {
	if len(a) != len(b) {
		return false
	}
	eq := true
	for i := range a {
		eq = zzAnd(eq, a[i] == b[i])
	}
	return eq
}

func zzAddrEq(a, b net.Addr) bool {
	switch x := a.(type) {
	case *net.TCPAddr:
		y, ok := b.(*net.TCPAddr)
		return ok && y != nil && zzAnd(x.Port == y.Port, zzBytesEq(x.IP, y.IP))
	case *net.UDPAddr:
		y, ok := b.(*net.UDPAddr)
		return ok && y != nil && zzAnd(x.Port == y.Port, zzBytesEq(x.IP, y.IP))
	}
	return false
}

// C16/codec: every protocol message, sent with the real send and received with the
// real receive over a boundary-preserving transport, decodes to what was encoded.
func zzH_C16_codec() {
	n := zzParam("N", 4)
	c := Conn2(&zzMsgConn{})
	kind := zzLen(0, 6)
	var m encoding.BinaryMarshaler
	switch kind {
	case 0:
		m = Hello{Laddr: zzAddr(), Raddr: zzAddr()}
	case 1:
		m = ReadWriteTCP{Laddr: zzAddr(), Raddr: zzAddr(), Payload: zzBytes(zzLen(0, n))}
	case 2:
		m = Handshake{ProtocolVersion: int(zzU16()), Version: zzString(zzLen(0, n)), ShortCommitID: zzString(zzLen(0, 2)), CommitID: zzString(zzLen(0, 2)), Token: zzString(zzLen(0, n))}
	case 3:
		k := zzLen(0, 2)
		var as []net.Addr
		for i := 0; i < k; i++ {
			as = append(as, zzAddr())
		}
		m = HandshakeResponse{Addresses: as}
	case 4:
		m = EOF{Laddr: zzAddr(), Raddr: zzAddr()}
	case 5:
		m = Ping{}
	case 6:
		m = ReadWriteUDP{Laddr: zzAddr(), Raddr: zzAddr(), Payload: zzBytes(zzLen(0, n))}
	}
	err := c.send(m)
	zzAssert(err == nil, "every protocol message can be sent")
	o, err := c.receive()
	zzAssert(err == nil && o != nil, "every protocol message sent can be received")
	if err != nil || o == nil {
		return
	}
	switch x := m.(type) {
	case Hello:
		y, ok := o.(*Hello)
		zzAssert(ok && zzAddrEq(x.Laddr, y.Laddr) && zzAddrEq(x.Raddr, y.Raddr), "hello decodes to the announced addresses")
	case ReadWriteTCP:
		y, ok := o.(*ReadWriteTCP)
		zzAssert(ok && zzAddrEq(x.Laddr, y.Laddr) && zzAddrEq(x.Raddr, y.Raddr) && zzBytesEq(x.Payload, y.Payload), "a TCP data message decodes to its addresses and payload")
	case Handshake:
		y, ok := o.(*Handshake)
		zzAssert(ok && y.ProtocolVersion == x.ProtocolVersion && y.Version == x.Version && y.ShortCommitID == x.ShortCommitID && y.CommitID == x.CommitID && y.Token == x.Token, "the handshake decodes to what was encoded")
	case HandshakeResponse:
		y, ok := o.(*HandshakeResponse)
		good := ok && len(y.Addresses) == len(x.Addresses)
		for i := 0; good && i < len(x.Addresses); i++ {
			good = zzAddrEq(x.Addresses[i], y.Addresses[i])
		}
		zzAssert(good, "the handshake response decodes to the announced addresses")
	case EOF:
		y, ok := o.(*EOF)
		zzAssert(ok && zzAddrEq(x.Laddr, y.Laddr) && zzAddrEq(x.Raddr, y.Raddr), "eof decodes to its addresses")
	case Ping:
		_, ok := o.(*Ping)
		zzAssert(ok, "ping decodes to ping")
	case ReadWriteUDP:
		y, ok := o.(*ReadWriteUDP)
		zzAssert(ok && zzAddrEq(x.Laddr, y.Laddr) && zzAddrEq(x.Raddr, y.Raddr) && zzBytesEq(x.Payload, y.Payload), "a UDP relay message decodes to its addresses and payload")
	}
}
