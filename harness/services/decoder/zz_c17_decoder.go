//go:build verif

package decoder

// C17 — inductive step: from an arbitrary valid decoder state (any buffer up to N
// bytes, any cursor 0 <= offset <= len), one operation with an arbitrary 64-bit
// argument. Obligations: no panic; a read that fits returns the big-endian value at
// the cursor and advances by its size; one that does not fit returns zero/nil,
// records an error and consumes nothing; the invariant 0 <= offset <= len is kept.

func zzBE(data []byte, off, size int) uint32 {
	var v uint32
	for i := 0; i < size; i++ {
		v = v<<8 | uint32(data[off+i])
	}
	return v
}

func zzH_C17_step() {
	n := zzLen(0, zzParam("N", 6))
	data := zzBytes(n)
	orig := make([]byte, n)
	copy(orig, data)
	off := zzInt()
	zzAssume(off >= 0 && off <= n)
	d := &Decode{offset: off, data: data}
	op := zzLen(0, 10)
	arg := zzInt()

	fits := func(size int) bool { return off+size <= n }
	checkFixed := func(size int, got uint32, advance bool) {
		if fits(size) {
			zzAssert(got == zzBE(orig, off, size), "fitting read returns the big-endian value at the cursor")
			if advance {
				zzAssert(d.offset == off+size, "fitting read advances by its size")
			} else {
				zzAssert(d.offset == off, "peek does not move the cursor")
			}
			zzAssert(d.lasterror == nil, "fitting read records no error")
		} else {
			zzAssert(got == 0, "non-fitting read returns zero")
			zzAssert(d.offset == off, "non-fitting read consumes nothing")
			zzAssert(d.lasterror != nil, "non-fitting read records an error")
		}
	}

	var panicked bool
	switch op {
	case 0:
		var r byte
		panicked = zzDidPanic(func() { r = d.Byte() })
		if !panicked {
			checkFixed(1, uint32(r), true)
		}
	case 1:
		var r int16
		panicked = zzDidPanic(func() { r = d.Int16() })
		if !panicked {
			checkFixed(2, uint32(uint16(r)), true)
		}
	case 2:
		var r int32
		panicked = zzDidPanic(func() { r = d.Int32() })
		if !panicked {
			checkFixed(4, uint32(r), true)
		}
	case 3:
		var r uint32
		panicked = zzDidPanic(func() { r = d.Uint32() })
		if !panicked {
			checkFixed(4, r, true)
		}
	case 4:
		var r byte
		panicked = zzDidPanic(func() { r = d.PeekByte() })
		if !panicked {
			checkFixed(1, uint32(r), false)
		}
	case 5:
		var r int16
		panicked = zzDidPanic(func() { r = d.PeekInt16() })
		if !panicked {
			checkFixed(2, uint32(uint16(r)), false)
		}
	case 6: // Copy(arg), arg any int
		var r []byte
		panicked = zzDidPanic(func() { r = d.Copy(arg) })
		if !panicked {
			if arg >= 0 && arg <= n-off {
				zzAssert(len(r) == arg, "Copy returns exactly size bytes")
				ok := true
				for i := 0; i < len(r); i++ {
					ok = ok && r[i] == orig[off+i]
				}
				zzAssert(ok, "Copy returns the bytes at the cursor")
				zzAssert(d.offset == off+arg, "Copy advances by size")
				zzAssert(!zzAliases(r, data), "Copy result does not alias the buffer")
				zzAssert(d.lasterror == nil, "fitting Copy records no error")
			} else {
				zzAssert(r == nil, "non-fitting Copy returns nil")
				zzAssert(d.offset == off, "non-fitting Copy consumes nothing")
				zzAssert(d.lasterror != nil, "non-fitting Copy records an error")
			}
		}
	case 7: // Seek(arg) relative
		panicked = zzDidPanic(func() { d.Seek(arg) })
		if !panicked {
			if arg >= -off && arg <= n-off {
				zzAssert(d.offset == off+arg, "valid Seek moves the cursor")
				zzAssert(d.lasterror == nil, "valid Seek records no error")
			} else {
				zzAssert(d.offset == off, "invalid Seek leaves the cursor")
				zzAssert(d.lasterror != nil, "invalid Seek records an error")
			}
		}
	case 8: // Data(): 16-bit length prefix + bytes
		var r string
		panicked = zzDidPanic(func() { r = d.Data() })
		if !panicked {
			if !fits(2) {
				zzAssert(r == "" && d.offset == off && d.lasterror != nil, "Data without a length prefix returns empty, consumes nothing, records an error")
			} else {
				l := int(int16(zzBE(orig, off, 2)))
				if l >= 0 && off+2+l <= n {
					ok := len(r) == l
					for i := 0; ok && i < l; i++ {
						ok = r[i] == orig[off+2+i]
					}
					zzAssert(ok, "Data returns the length-prefixed bytes")
					zzAssert(d.offset == off+2+l, "Data advances past prefix and bytes")
				} else {
					zzAssert(r == "", "Data whose body does not fit returns empty")
					zzAssert(d.lasterror != nil, "Data whose body does not fit records an error")
					zzAssert(d.offset == off+2, "Data whose body does not fit consumes only the prefix")
				}
			}
		}
	case 9:
		var err error
		panicked = zzDidPanic(func() { err = d.HasBytes(arg) })
		if !panicked {
			want := arg >= -off && arg <= n-off
			zzAssert((err == nil) == want, "HasBytes(size) is nil iff 0 <= offset+size <= len")
			zzAssert(d.offset == off, "HasBytes does not move the cursor")
		}
	case 10:
		var a int
		panicked = zzDidPanic(func() { a = d.Available() })
		if !panicked {
			zzAssert(a == n-off, "Available is len - offset")
		}
	}
	zzAssert(!panicked, "decoder operation does not panic")
	zzAssert(d.offset >= 0 && d.offset <= len(d.data), "invariant 0 <= offset <= len preserved")
	same := len(d.data) == n
	for i := 0; same && i < n; i++ {
		same = d.data[i] == orig[i]
	}
	zzAssert(same, "the buffer is never written")
}

// C17 — cross-check of the invariant: sequences of K operations from NewDecoder.
func zzH_C17_seq() {
	n := zzLen(0, zzParam("N", 4))
	data := zzBytes(n)
	d := NewDecoder(data)
	k := zzParam("K", 3)
	for i := 0; i < k; i++ {
		op := zzLen(0, 8)
		arg := zzInt()
		before := d.offset
		p := zzDidPanic(func() {
			switch op {
			case 0:
				d.Byte()
			case 1:
				d.Int16()
			case 2:
				d.Int32()
			case 3:
				d.Uint32()
			case 4:
				d.PeekByte()
			case 5:
				d.PeekInt16()
			case 6:
				d.Copy(arg)
			case 7:
				d.Seek(arg)
			case 8:
				d.Data()
			}
		})
		zzAssert(!p, "no operation in a sequence panics")
		zzAssert(d.offset >= 0 && d.offset <= n, "cursor stays inside the buffer along any sequence")
		if op == 4 || op == 5 {
			zzAssert(d.offset == before, "peeks never move the cursor")
		}
	}
}
