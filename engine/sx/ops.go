package sx

import (
	"fmt"
	"go/token"
	"go/types"
	"math"
	"unicode/utf8"

	"gosx/smt"

	"golang.org/x/tools/go/ssa"
)

func (e *Engine) binop(op token.Token, x, y Value, xt, yt types.Type) Value {
	switch a := x.(type) {
	case *smt.Term:
		b, ok := y.(*smt.Term)
		if !ok {
			e.unsupported("binop %s on term and %T", op, y)
		}
		return e.binopTerm(op, a, b, xt, yt)
	case Str:
		b := y.(Str)
		switch op {
		case token.ADD:
			if a.Sym == nil && b.Sym == nil {
				return Str{S: a.S + b.S}
			}
			return e.mkStr(append(append([]*smt.Term{}, e.strBytes(a)...), e.strBytes(b)...))
		case token.EQL:
			return e.strEq(a, b)
		case token.NEQ:
			return e.ctx.Not(e.strEq(a, b))
		case token.LSS:
			return e.strLess(a, b, false)
		case token.LEQ:
			return e.strLess(a, b, true)
		case token.GTR:
			return e.strLess(b, a, false)
		case token.GEQ:
			return e.strLess(b, a, true)
		}
	case Float:
		b := y.(Float)
		switch op {
		case token.ADD:
			return Float{a.F + b.F}
		case token.SUB:
			return Float{a.F - b.F}
		case token.MUL:
			return Float{a.F * b.F}
		case token.QUO:
			return Float{a.F / b.F}
		case token.EQL:
			return e.ctx.Bool(a.F == b.F)
		case token.NEQ:
			return e.ctx.Bool(a.F != b.F)
		case token.LSS:
			return e.ctx.Bool(a.F < b.F)
		case token.LEQ:
			return e.ctx.Bool(a.F <= b.F)
		case token.GTR:
			return e.ctx.Bool(a.F > b.F)
		case token.GEQ:
			return e.ctx.Bool(a.F >= b.F)
		}
	}
	switch op {
	case token.EQL:
		return e.valEq(x, y, xt)
	case token.NEQ:
		return e.ctx.Not(e.valEq(x, y, xt))
	}
	e.unsupported("binop %s on %T", op, x)
	return nil
}

func (e *Engine) binopTerm(op token.Token, a, b *smt.Term, xt, yt types.Type) Value {
	c := e.ctx
	if a.W == 0 { // booleans
		switch op {
		case token.EQL:
			return c.Eq(a, b)
		case token.NEQ:
			return c.Not(c.Eq(a, b))
		case token.AND, token.LAND:
			return c.And(a, b)
		case token.OR, token.LOR:
			return c.Or(a, b)
		case token.XOR:
			return c.Not(c.Eq(a, b))
		}
		e.unsupported("bool binop %s", op)
	}
	signed := isSigned(xt)
	switch op {
	case token.ADD:
		return c.Bin(smt.OpBVAdd, a, b)
	case token.SUB:
		return c.Bin(smt.OpBVSub, a, b)
	case token.MUL:
		return c.Bin(smt.OpBVMul, a, b)
	case token.QUO, token.REM:
		e.check(c.Eq(b, c.BV(0, b.W)), "integer divide by zero")
		var o smt.Op
		switch {
		case op == token.QUO && signed:
			o = smt.OpBVSDiv
		case op == token.QUO:
			o = smt.OpBVUDiv
		case signed:
			o = smt.OpBVSRem
		default:
			o = smt.OpBVURem
		}
		return c.Bin(o, a, b)
	case token.AND:
		return c.Bin(smt.OpBVAnd, a, b)
	case token.OR:
		return c.Bin(smt.OpBVOr, a, b)
	case token.XOR:
		return c.Bin(smt.OpBVXor, a, b)
	case token.AND_NOT:
		return c.Bin(smt.OpBVAnd, a, c.BVNot(b))
	case token.SHL, token.SHR:
		// shift count: unsigned, or signed and must be non-negative
		if isSigned(yt) {
			e.check(c.Cmp(smt.OpBVSlt, b, c.BV(0, b.W)), "negative shift amount")
		}
		w := a.W
		// big := count >= w (in count's width)
		var big *smt.Term
		if b.W >= 7 || uint64(w) <= (uint64(1)<<uint(b.W))-1 {
			big = c.Not(c.Cmp(smt.OpBVUlt, b, c.BV(uint64(w), b.W)))
		} else {
			big = c.False
		}
		var cnt *smt.Term
		if b.W > w {
			cnt = c.Extract(b, w-1, 0)
		} else {
			cnt = c.ZExt(b, w)
		}
		switch {
		case op == token.SHL:
			return c.Ite(big, c.BV(0, w), c.Bin(smt.OpBVShl, a, cnt))
		case signed:
			fill := c.Bin(smt.OpBVAShr, a, c.BV(uint64(w-1), w))
			return c.Ite(big, fill, c.Bin(smt.OpBVAShr, a, cnt))
		default:
			return c.Ite(big, c.BV(0, w), c.Bin(smt.OpBVLShr, a, cnt))
		}
	case token.EQL:
		return c.Eq(a, b)
	case token.NEQ:
		return c.Not(c.Eq(a, b))
	case token.LSS:
		if signed {
			return c.Cmp(smt.OpBVSlt, a, b)
		}
		return c.Cmp(smt.OpBVUlt, a, b)
	case token.LEQ:
		if signed {
			return c.Cmp(smt.OpBVSle, a, b)
		}
		return c.Cmp(smt.OpBVUle, a, b)
	case token.GTR:
		if signed {
			return c.Cmp(smt.OpBVSlt, b, a)
		}
		return c.Cmp(smt.OpBVUlt, b, a)
	case token.GEQ:
		if signed {
			return c.Cmp(smt.OpBVSle, b, a)
		}
		return c.Cmp(smt.OpBVUle, b, a)
	}
	e.unsupported("int binop %s", op)
	return nil
}

func (e *Engine) strEq(a, b Str) *smt.Term {
	if a.Len() != b.Len() {
		return e.ctx.False
	}
	if a.Sym == nil && b.Sym == nil {
		return e.ctx.Bool(a.S == b.S)
	}
	r := e.ctx.True
	for i := 0; i < a.Len(); i++ {
		r = e.ctx.And(r, e.ctx.Eq(e.strByte(a, i), e.strByte(b, i)))
		if r.IsFalse() {
			break
		}
	}
	return r
}

// strLess: lexicographic a < b (or <=).
func (e *Engine) strLess(a, b Str, orEq bool) *smt.Term {
	if a.Sym == nil && b.Sym == nil {
		if orEq {
			return e.ctx.Bool(a.S <= b.S)
		}
		return e.ctx.Bool(a.S < b.S)
	}
	n := a.Len()
	if b.Len() < n {
		n = b.Len()
	}
	// result when the common prefix is equal
	var r *smt.Term
	switch {
	case a.Len() < b.Len():
		r = e.ctx.True
	case a.Len() == b.Len():
		r = e.ctx.Bool(orEq)
	default:
		r = e.ctx.False
	}
	for i := n - 1; i >= 0; i-- {
		x, y := e.strByte(a, i), e.strByte(b, i)
		r = e.ctx.Ite(e.ctx.Eq(x, y), r, e.ctx.Cmp(smt.OpBVUlt, x, y))
	}
	return r
}

// valEq: equality of two values of static type t (may be an interface type).
func (e *Engine) valEq(x, y Value, t types.Type) *smt.Term {
	switch a := x.(type) {
	case *smt.Term:
		return e.ctx.Eq(a, y.(*smt.Term))
	case Str:
		return e.strEq(a, y.(Str))
	case Float:
		return e.ctx.Bool(a.F == y.(Float).F)
	case Ptr:
		b, ok := y.(Ptr)
		if !ok {
			return e.ctx.False
		}
		if a.Idx != nil || b.Idx != nil {
			if a.Idx != nil && b.Idx != nil && a.Arr == b.Arr && a.Off == b.Off {
				return e.ctx.Eq(a.Idx, b.Idx)
			}
			if a.Idx == nil && a.Obj == nil || b.Idx == nil && b.Obj == nil {
				return e.ctx.False // element pointer vs nil
			}
			e.unsupported("comparison of a symbolic element pointer")
		}
		return e.ctx.Bool(a.Obj == b.Obj)
	case *MapObj:
		b, _ := y.(*MapObj)
		return e.ctx.Bool(a == b)
	case *ChanObj:
		b, _ := y.(*ChanObj)
		return e.ctx.Bool(a == b)
	case *Closure:
		b, _ := y.(*Closure)
		return e.ctx.Bool(a == b) // only nil comparisons are legal in Go
	case Slice:
		b := y.(Slice)
		return e.ctx.Bool(a.Arr == nil && b.Arr == nil)
	case Iface:
		b, ok := y.(Iface)
		if !ok {
			// comparing interface with concrete value (x is iface of static type)
			return e.ctx.False
		}
		if a.T == nil || b.T == nil {
			return e.ctx.Bool(a.T == nil && b.T == nil)
		}
		if !types.Identical(a.T, b.T) {
			return e.ctx.False
		}
		if !types.Comparable(a.T) {
			e.goPanicRT("comparing uncomparable type " + a.T.String())
		}
		return e.valEq(a.V, b.V, a.T)
	case *Struct:
		b := y.(*Struct)
		r := e.ctx.True
		for i := range a.F {
			r = e.ctx.And(r, e.valEq(a.F[i], b.F[i], nil))
		}
		return r
	case *Array:
		b := y.(*Array)
		r := e.ctx.True
		for i := range a.E {
			r = e.ctx.And(r, e.valEq(a.E[i], b.E[i], nil))
		}
		return r
	case nil:
		return e.ctx.Bool(y == nil)
	}
	e.unsupported("equality on %T", x)
	return nil
}

func (e *Engine) convert(v Value, from, to types.Type) Value {
	fu, tu := from.Underlying(), to.Underlying()
	switch t := tu.(type) {
	case *types.Basic:
		switch {
		case t.Info()&types.IsInteger != 0:
			switch x := v.(type) {
			case *smt.Term:
				w := e.width(t)
				if x.W == w {
					return x
				}
				if x.W > w {
					return e.ctx.Extract(x, w-1, 0)
				}
				if isSigned(from) {
					return e.ctx.SExt(x, w)
				}
				return e.ctx.ZExt(x, w)
			case Float:
				return e.ctx.BV(uint64(int64(x.F)), e.width(t))
			case Ptr:
				// unsafe.Pointer -> uintptr: opaque object id
				if x.Obj == nil {
					return e.ctx.BV(0, 64)
				}
				return e.ctx.BV(uint64(0x10000+x.Obj.ID*64), 64)
			}
		case t.Info()&types.IsFloat != 0:
			switch x := v.(type) {
			case Float:
				if t.Kind() == types.Float32 {
					return Float{float64(float32(x.F))}
				}
				return x
			case *smt.Term:
				if !x.IsConst() {
					e.unsupported("symbolic int to float conversion")
				}
				if isSigned(from) {
					return Float{float64(x.Signed())}
				}
				return Float{float64(x.C)}
			}
		case t.Info()&types.IsString != 0:
			switch x := v.(type) {
			case Str:
				return x
			case Slice: // []byte or []rune
				el := fu.(*types.Slice).Elem().Underlying().(*types.Basic)
				if el.Kind() == types.Uint8 {
					bs := make([]*smt.Term, x.Len)
					for i := 0; i < x.Len; i++ {
						bs[i] = e.load(e.sub(x.Arr, x.Off+i)).(*smt.Term)
					}
					return e.mkStr(bs)
				}
				// []rune -> string: concrete runes of any kind; symbolic runes on the ASCII branch
				// (one byte each), the non-ASCII branch of a symbolic rune is unsupported
				var out []*smt.Term
				for i := 0; i < x.Len; i++ {
					r := e.load(e.sub(x.Arr, x.Off+i)).(*smt.Term)
					if !r.IsConst() {
						if e.branch(e.ctx.Cmp(smt.OpBVUlt, e.ctx.ZExt(r, 64), e.intC(0x80))) {
							out = append(out, e.ctx.Extract(r, 7, 0))
							continue
						}
						e.unsupported("symbolic non-ASCII rune in []rune to string")
					}
					for _, b := range utf8.AppendRune(nil, rune(int32(r.C))) {
						out = append(out, e.ctx.BV(uint64(b), 8))
					}
				}
				return e.mkStr(out)
			case *smt.Term: // integer -> string (rune)
				if !x.IsConst() {
					// fork on ASCII
					if e.branch(e.ctx.Cmp(smt.OpBVUlt, e.toInt64(x, from), e.intC(0x80))) {
						return e.mkStr([]*smt.Term{e.ctx.Extract(x, 7, 0)})
					}
					e.unsupported("symbolic non-ASCII rune to string")
				}
				return Str{S: string(rune(x.Signed()))}
			}
		case t.Kind() == types.UnsafePointer:
			switch x := v.(type) {
			case Ptr:
				return x
			case *smt.Term:
				if x.IsConst() && x.C == 0 {
					return Ptr{}
				}
				e.unsupported("uintptr to unsafe.Pointer")
			}
		}
	case *types.Slice:
		if s, ok := v.(Str); ok {
			el := t.Elem().Underlying().(*types.Basic)
			if el.Kind() == types.Uint8 {
				n := s.Len()
				arr := e.newArrayObj(t.Elem(), n)
				for i := 0; i < n; i++ {
					e.sub(arr, i).V = e.strByte(s, i)
				}
				return Slice{Arr: arr, Len: n, Cap: n}
			}
			if !s.IsConcrete() {
				e.unsupported("symbolic string to []rune")
			}
			rs := []rune(s.Concrete())
			arr := e.newArrayObj(t.Elem(), len(rs))
			for i, r := range rs {
				e.sub(arr, i).V = e.ctx.BV(uint64(r), 32)
			}
			return Slice{Arr: arr, Len: len(rs), Cap: len(rs)}
		}
		return v
	case *types.Pointer:
		if p, ok := v.(Ptr); ok {
			return p // unsafe.Pointer -> *T
		}
	}
	e.unsupported("convert %s -> %s (%T)", from, to, v)
	return nil
}

func (e *Engine) typeAssert(f *frame, x *ssa.TypeAssert) Value {
	iv := e.get(f, x.X).(Iface)
	ok := false
	var res Value
	if it, isIface := x.AssertedType.Underlying().(*types.Interface); isIface {
		if iv.T != nil && e.implements(iv.T, it) {
			ok = true
			res = iv
		} else {
			res = Iface{}
		}
	} else {
		if iv.T != nil && types.Identical(iv.T, x.AssertedType) {
			ok = true
			res = iv.V
		} else {
			res = e.zero(x.AssertedType)
		}
	}
	if x.CommaOk {
		return Tuple{res, e.ctx.Bool(ok)}
	}
	if !ok {
		ts := "nil"
		if iv.T != nil {
			ts = iv.T.String()
		}
		panic(&goPanic{msg: "interface conversion: interface is " + ts + ", not " + x.AssertedType.String(), rt: true, stack: e.stackNames(),
			val: Iface{T: rtErrType, V: Str{S: "interface conversion: " + ts + " is not " + x.AssertedType.String()}}})
	}
	return res
}

func (e *Engine) implements(t types.Type, it *types.Interface) bool {
	if t == gosxErrType || t == rtErrType {
		// synthetic error types implement error (and only that)
		for i := 0; i < it.NumMethods(); i++ {
			if it.Method(i).Name() != "Error" {
				if t == rtErrType && it.Method(i).Name() == "RuntimeError" {
					continue
				}
				return false
			}
		}
		return true
	}
	return types.Implements(t, it)
}

// ---- maps ----

func (e *Engine) mapFind(m *MapObj, key Value) int {
	if m == nil || len(m.Keys) == 0 {
		return -1
	}
	conds := make([]*smt.Term, 0, len(m.Keys)+1)
	none := e.ctx.True
	for _, k := range m.Keys {
		c := e.valEq(k, key, nil)
		conds = append(conds, e.ctx.And(none, c))
		none = e.ctx.And(none, e.ctx.Not(c))
	}
	conds = append(conds, none)
	i := e.choose(conds, true)
	if i == len(m.Keys) {
		return -1
	}
	return i
}

func (e *Engine) logMap(m *MapObj) {
	if m.epoch != e.epoch {
		keys, vals := append([]Value{}, m.Keys...), append([]Value{}, m.Vals...)
		e.undo = append(e.undo, func() { m.Keys, m.Vals = keys, vals })
		// after logging once per path it would be logged again; harmless
	}
}

func (e *Engine) mapUpdate(m *MapObj, k, v Value) {
	e.logMap(m)
	e.noteMapAccess(m, true)
	i := e.mapFind(m, k)
	if i >= 0 {
		m.Vals[i] = v
		return
	}
	m.Keys = append(m.Keys, k)
	m.Vals = append(m.Vals, v)
}

func (e *Engine) mapDelete(m *MapObj, k Value) {
	if m == nil {
		return
	}
	e.logMap(m)
	e.noteMapAccess(m, true)
	i := e.mapFind(m, k)
	if i < 0 {
		return
	}
	m.Keys = append(append([]Value{}, m.Keys[:i]...), m.Keys[i+1:]...)
	m.Vals = append(append([]Value{}, m.Vals[:i]...), m.Vals[i+1:]...)
}

func (e *Engine) lookup(f *frame, x *ssa.Lookup) Value {
	base := e.get(f, x.X)
	if s, ok := base.(Str); ok {
		idx := e.toInt64(e.get(f, x.Index).(*smt.Term), x.Index.Type())
		n := s.Len()
		i := e.elemIndex(idx, n, "")
		if i >= 0 {
			return e.strByte(s, i)
		}
		r := e.strByte(s, n-1)
		for k := n - 2; k >= 0; k-- {
			r = e.ctx.Ite(e.ctx.Eq(idx, e.intC(k)), e.strByte(s, k), r)
		}
		return r
	}
	m := base.(*MapObj)
	var vt types.Type
	if m != nil {
		vt = m.T.Elem()
		e.noteMapAccess(m, false)
	} else {
		vt = x.X.Type().Underlying().(*types.Map).Elem()
	}
	key := e.get(f, x.Index)
	// a map whose values are all the same (a set): the lookup forks two ways
	// (present / absent) instead of once per key
	if m != nil && len(m.Keys) > 1 {
		if kt, isTerm := key.(*smt.Term); isTerm && !kt.IsConst() {
			same := true
			for _, mv := range m.Vals[1:] {
				if !e.valEqNoFork(mv, m.Vals[0]) {
					same = false
					break
				}
			}
			if same {
				found := e.ctx.False
				for _, k := range m.Keys {
					found = e.ctx.Or(found, e.valEq(k, key, nil))
				}
				var v Value
				ok := e.branch(found)
				if ok {
					v = m.Vals[0]
				} else {
					v = e.zero(vt)
				}
				if x.CommaOk {
					return Tuple{v, e.ctx.Bool(ok)}
				}
				return v
			}
		}
	}
	i := e.mapFind(m, key)
	var v Value
	if i >= 0 {
		v = m.Vals[i]
	} else {
		v = e.zero(vt)
	}
	if x.CommaOk {
		return Tuple{v, e.ctx.Bool(i >= 0)}
	}
	return v
}

func (e *Engine) rangeOp(v Value) Value {
	switch x := v.(type) {
	case Str:
		return &Iter{IsStr: true, Str: &x}
	case *MapObj:
		it := &Iter{Map: x}
		if x != nil {
			e.noteMapAccess(x, false)
			it.Keys = append([]Value{}, x.Keys...)
			it.Vals = append([]Value{}, x.Vals...)
		}
		return it
	}
	e.unsupported("range over %T", v)
	return nil
}

func (e *Engine) next(it *Iter, x *ssa.Next) Value {
	if it.IsStr {
		s := *it.Str
		n := s.Len()
		if it.Pos >= n {
			return Tuple{e.ctx.False, e.intC(0), e.ctx.BV(0, 32)}
		}
		i := it.Pos
		b0 := e.strByte(s, i)
		if b0.IsConst() && s.IsConcrete() {
			r, size := utf8.DecodeRuneInString(s.Concrete()[i:])
			it.Pos += size
			return Tuple{e.ctx.True, e.intC(i), e.ctx.BV(uint64(r), 32)}
		}
		// symbolic: fork on ASCII vs not
		if e.branch(e.ctx.Cmp(smt.OpBVUlt, b0, e.ctx.BV(0x80, 8))) {
			it.Pos++
			return Tuple{e.ctx.True, e.intC(i), e.ctx.ZExt(b0, 32)}
		}
		// non-ASCII lead byte: decode by forking on validity classes is expensive; treat
		// the byte as an invalid encoding only when it cannot start a sequence, otherwise
		// unsupported (harnesses constrain such bytes when they matter).
		bad := e.ctx.Or(e.ctx.Cmp(smt.OpBVUlt, b0, e.ctx.BV(0xC2, 8)), e.ctx.Cmp(smt.OpBVUlt, e.ctx.BV(0xF4, 8), b0))
		if e.branch(bad) || i+1 >= n {
			it.Pos++
			return Tuple{e.ctx.True, e.intC(i), e.ctx.BV(0xFFFD, 32)}
		}
		// continuation byte check for the 2-byte form; longer forms -> RuneError width 1 if next is not continuation
		b1 := e.strByte(s, i+1)
		cont := e.ctx.Eq(e.ctx.Bin(smt.OpBVAnd, b1, e.ctx.BV(0xC0, 8)), e.ctx.BV(0x80, 8))
		if !e.branch(cont) {
			it.Pos++
			return Tuple{e.ctx.True, e.intC(i), e.ctx.BV(0xFFFD, 32)}
		}
		if e.branch(e.ctx.Cmp(smt.OpBVUlt, b0, e.ctx.BV(0xE0, 8))) {
			it.Pos += 2
			r := e.ctx.Bin(smt.OpBVOr,
				e.ctx.Bin(smt.OpBVShl, e.ctx.ZExt(e.ctx.Bin(smt.OpBVAnd, b0, e.ctx.BV(0x1F, 8)), 32), e.ctx.BV(6, 32)),
				e.ctx.ZExt(e.ctx.Bin(smt.OpBVAnd, b1, e.ctx.BV(0x3F, 8)), 32))
			return Tuple{e.ctx.True, e.intC(i), r}
		}
		e.unsupported("range over symbolic string with 3/4-byte UTF-8 lead byte")
	}
	if it.Pos >= len(it.Keys) {
		m := it.Map
		var kt, vt types.Type
		if m != nil {
			kt, vt = m.T.Key(), m.T.Elem()
			return Tuple{e.ctx.False, e.zero(kt), e.zero(vt)}
		}
		tt := x.Type().(*types.Tuple)
		return Tuple{e.ctx.False, e.zeroOrNil(tt.At(1).Type()), e.zeroOrNil(tt.At(2).Type())}
	}
	// skip entries deleted since the snapshot (Go semantics: deleted entries not produced)
	for it.Pos < len(it.Keys) {
		k := it.Keys[it.Pos]
		present := false
		for _, mk := range it.Map.Keys {
			if e.sameKey(mk, k) {
				present = true
				break
			}
		}
		if present {
			break
		}
		it.Pos++
	}
	if it.Pos >= len(it.Keys) {
		return Tuple{e.ctx.False, e.zero(it.Map.T.Key()), e.zero(it.Map.T.Elem())}
	}
	k := it.Keys[it.Pos]
	// current value (may have been updated)
	var v Value
	for j, mk := range it.Map.Keys {
		if e.sameKey(mk, k) {
			v = it.Map.Vals[j]
		}
	}
	it.Pos++
	return Tuple{e.ctx.True, k, v}
}

func (e *Engine) zeroOrNil(t types.Type) Value {
	if b, ok := t.(*types.Basic); ok && b.Kind() == types.Invalid {
		return nil
	}
	return e.zero(t)
}

// sameKey: syntactic identity of map keys (used only for iteration bookkeeping).
func (e *Engine) sameKey(a, b Value) bool {
	t := e.valEqNoFork(a, b)
	return t
}

func (e *Engine) valEqNoFork(a, b Value) (same bool) {
	defer func() {
		if r := recover(); r != nil {
			if _, ok := r.(abortPath); ok {
				same = false
				return
			}
			panic(r)
		}
	}()
	return e.valEq(a, b, nil).IsTrue()
}

// ---- floats helpers ----

func floatBits(f float64) uint64 { return math.Float64bits(f) }

var _ = fmt.Sprint

// deepEq models reflect.DeepEqual over interpreter values (depth-bounded; cycles beyond
// the bound are unsupported).
func (e *Engine) deepEq(x, y Value, depth int) *smt.Term {
	if depth > 40 {
		e.unsupported("reflect.DeepEqual: nesting deeper than 40")
	}
	switch a := x.(type) {
	case *smt.Term:
		b, ok := y.(*smt.Term)
		if !ok || a.W != b.W {
			return e.ctx.False
		}
		return e.ctx.Eq(a, b)
	case Str:
		b, ok := y.(Str)
		if !ok {
			return e.ctx.False
		}
		return e.strEq(a, b)
	case Float:
		b, ok := y.(Float)
		return e.ctx.Bool(ok && a.F == b.F)
	case Iface:
		b, ok := y.(Iface)
		if !ok {
			return e.ctx.False
		}
		if a.T == nil || b.T == nil {
			return e.ctx.Bool(a.T == nil && b.T == nil)
		}
		if !types.Identical(a.T, b.T) {
			return e.ctx.False
		}
		return e.deepEq(a.V, b.V, depth+1)
	case Ptr:
		b, ok := y.(Ptr)
		if !ok {
			return e.ctx.False
		}
		if a.Idx != nil || b.Idx != nil {
			e.unsupported("reflect.DeepEqual on a symbolic element pointer")
		}
		if a.Obj == nil || b.Obj == nil {
			return e.ctx.Bool(a.Obj == nil && b.Obj == nil)
		}
		if a.Obj == b.Obj {
			return e.ctx.True
		}
		return e.deepEq(e.load(a.Obj), e.load(b.Obj), depth+1)
	case *Struct:
		b, ok := y.(*Struct)
		if !ok || len(a.F) != len(b.F) {
			return e.ctx.False
		}
		r := e.ctx.True
		for i := range a.F {
			r = e.ctx.And(r, e.deepEq(a.F[i], b.F[i], depth+1))
		}
		return r
	case *Array:
		b, ok := y.(*Array)
		if !ok || len(a.E) != len(b.E) {
			return e.ctx.False
		}
		r := e.ctx.True
		for i := range a.E {
			r = e.ctx.And(r, e.deepEq(a.E[i], b.E[i], depth+1))
		}
		return r
	case Slice:
		b, ok := y.(Slice)
		if !ok || (a.Arr == nil) != (b.Arr == nil) || a.Len != b.Len {
			return e.ctx.False
		}
		r := e.ctx.True
		for i := 0; i < a.Len; i++ {
			r = e.ctx.And(r, e.deepEq(e.load(e.sub(a.Arr, a.Off+i)), e.load(e.sub(b.Arr, b.Off+i)), depth+1))
		}
		return r
	case *MapObj:
		b, ok := y.(*MapObj)
		if !ok || (a == nil) != (b == nil) {
			return e.ctx.False
		}
		if a == nil || a == b {
			return e.ctx.True
		}
		if len(a.Keys) != len(b.Keys) {
			return e.ctx.False
		}
		r := e.ctx.True
		for i, k := range a.Keys {
			found := false
			for j, k2 := range b.Keys {
				if eq := e.deepEq(k, k2, depth+1); eq.IsTrue() {
					r = e.ctx.And(r, e.deepEq(a.Vals[i], b.Vals[j], depth+1))
					found = true
					break
				} else if !eq.IsFalse() {
					e.unsupported("reflect.DeepEqual on maps with symbolic keys")
				}
			}
			if !found {
				return e.ctx.False
			}
		}
		return r
	case *Closure:
		b, ok := y.(*Closure)
		return e.ctx.Bool(ok && a == nil && b == nil) // non-nil funcs are never deeply equal
	case *ChanObj:
		b, ok := y.(*ChanObj)
		return e.ctx.Bool(ok && a == b)
	case nil:
		return e.ctx.Bool(y == nil)
	}
	e.unsupported("reflect.DeepEqual on %T", x)
	return nil
}
