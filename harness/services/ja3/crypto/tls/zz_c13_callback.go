//go:build verif

package tls

import (
	"errors"
	"io"
	"net"
	"time"
)

// zzRecConn: the client side of the connection as a byte queue.
type zzRecConn struct {
	in  []byte
	out int
}

func (c *zzRecConn) Read(p []byte) (int, error) {
	if len(c.in) == 0 {
		return 0, io.EOF
	}
	n := copy(p, c.in)
	c.in = c.in[n:]
	return n, nil
}
func (c *zzRecConn) Write(p []byte) (int, error) { c.out += len(p); return len(p), nil }
func (c *zzRecConn) Close() error                { return nil }
func (c *zzRecConn) LocalAddr() net.Addr         { return &net.TCPAddr{IP: net.IPv4(10, 0, 0, 1), Port: 443} }
func (c *zzRecConn) RemoteAddr() net.Addr {
	return &net.TCPAddr{IP: net.IPv4(10, 0, 0, 2), Port: 40000}
}
func (c *zzRecConn) SetDeadline(t time.Time) error      { return nil }
func (c *zzRecConn) SetReadDeadline(t time.Time) error  { return nil }
func (c *zzRecConn) SetWriteDeadline(t time.Time) error { return nil }

type zzZeroReader struct{}

func (zzZeroReader) Read(p []byte) (int, error) {
	for i := range p {
		p[i] = 0
	}
	return len(p), nil
}

func zzRecord(vers uint16, frag []byte) []byte {
	r := []byte{byte(recordTypeHandshake), byte(vers >> 8), byte(vers), byte(len(frag) >> 8), byte(len(frag))}
	return append(r, frag...)
}

// C13/callback: the https service records digest and server name inside its certificate
// callback. A well-formed hello (versions TLS1.0..1.2, null compression offered) - sent in
// one record or cut into two at any position - must reach that callback, and the callback
// must see the specification's JA3 and the SNI sent, also when the handshake is refused
// afterwards (unsupported suites, inappropriate fallback, ...).
func zzH_C13_callback() {
	msg, want, sni, label := zzMakeHello(1, zzParam("CIPHERS", 2), 0, zzParam("CURVES", 1))
	var wire []byte
	cut := 0
	if zzParam("ALLCUTS", 0) == 1 {
		cut = zzLen(0, len(msg)-1)
	} else {
		// quick tier: the cuts around the handshake header and the end of the message
		n := len(msg)
		cuts := []int{0, 1, 3, 4, 5, 6, n / 2, n - 5, n - 4, n - 3, n - 2, n - 1}
		cut = cuts[zzLen(0, len(cuts)-1)]
	}
	if cut == 0 {
		wire = zzRecord(0x0301, msg)
	} else {
		wire = append(zzRecord(0x0301, msg[:cut]), zzRecord(0x0301, msg[cut:])...)
	}
	conn := &zzRecConn{in: wire}
	called, got, gotSNI := false, "", ""
	cfg := &Config{
		Rand: zzZeroReader{},
		GetCertificate: func(h *ClientHelloInfo) (*Certificate, error) {
			called, got, gotSNI = true, h.JA3(), h.ServerName
			return nil, errors.New("zz: stop after the callback")
		},
	}
	c := Server(conn, cfg)
	hs := serverHandshakeState{c: c}
	hs.readClientHello()
	zzAssertMsg(called, "the certificate callback, where digest and server name are recorded, is reached for every well-formed hello however it is fragmented", label)
	if !called {
		return
	}
	zzAssertMsg(got == want, "the JA3 string seen by the callback equals the specification's JA3 of the hello sent", label)
	zzAssert(gotSNI == sni, "the server name seen by the callback equals the SNI sent")
}
