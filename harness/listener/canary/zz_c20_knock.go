//go:build verif

package canary

import (
	"context"
	"net"
	"sort"
	"strconv"
	"time"

	"github.com/honeytrap/honeytrap/event"
)

// C20/uniqueset: K operations over 3 keys against a bit-set reference, including
// removing the visited member from inside Each (as the scan detector does).
func zzH_C20_uniqueset() {
	us := NewUniqueSet(func(a, b interface{}) bool { return a.(int) == b.(int) })
	var member [3]bool
	count := func() int {
		n := 0
		for _, m := range member {
			if m {
				n++
			}
		}
		return n
	}
	k := zzParam("K", 4)
	for step := 0; step < k; step++ {
		op := zzLen(0, 2)
		switch op {
		case 0: // Add
			key := zzLen(0, 2)
			r := us.Add(key)
			zzAssert(r.(int) == key, "Add returns the member equal to the item")
			member[key] = true
		case 1: // Remove
			key := zzLen(0, 2)
			us.Remove(key)
			member[key] = false
		case 2: // Each, removing a chosen subset of the visited members on the way
			var rm [3]bool
			for i := range rm {
				rm[i] = zzLen(0, 1) == 1
			}
			var visits [3]int
			us.Each(func(i int, v interface{}) {
				key := v.(int)
				visits[key]++
				if rm[key] {
					defer us.Remove(v)
				}
			})
			for key := 0; key < 3; key++ {
				if member[key] {
					zzAssert(visits[key] == 1, "Each visits every member exactly once, also when visited members are removed on the way")
				} else {
					zzAssert(visits[key] == 0, "Each visits no non-member")
				}
				if rm[key] {
					member[key] = false
				}
			}
		}
		zzAssert(us.Count() == count(), "Count equals the number of distinct members")
		for key := 0; key < 3; key++ {
			kk := key
			found := us.Find(func(v interface{}) bool { return v.(int) == kk }) != nil
			zzAssert(found == member[key], "membership matches the reference set")
		}
	}
}

type zzRecChan struct{ evs []event.Event }

func (r *zzRecChan) Send(e event.Event) { r.evs = append(r.evs, e) }

var (
	zzSrcs  = []net.IP{net.IPv4(10, 0, 0, 7), net.IPv4(10, 0, 0, 8)}
	zzDst   = net.IPv4(10, 0, 0, 1)
	zzMacS  = net.HardwareAddr{2, 0, 0, 0, 0, 7}
	zzMacD  = net.HardwareAddr{2, 0, 0, 0, 0, 1}
	zzPorts = []uint16{80, 443}
)

// C20/detector: B bursts of up to K probes (kind, source, port chosen per probe)
// each followed by the detector's quiet-period tick. Obligation per burst and source:
// the port lists of the port-scan events emitted for that source, taken together,
// list exactly the distinct protocol/port pairs probed in the burst, each once.
func zzH_C20_detector() {
	rec := &zzRecChan{}
	c := &Canary{knockChan: make(chan interface{}, 100), events: rec}
	ctx, cancel := context.WithCancel(context.Background())
	zzTimers(0)
	go c.knockDetector(ctx)
	bursts := zzParam("B", 2)
	for b := 0; b < bursts; b++ {
		k := zzLen(1, zzParam("K", 3))
		want := [2]map[string]bool{{}, {}}
		for i := 0; i < k; i++ {
			src := zzLen(0, 1)
			kind := zzLen(0, 2)
			switch kind {
			case 0:
				p := zzPorts[zzLen(0, len(zzPorts)-1)]
				c.knockChan <- KnockTCPPort{SourceHardwareAddr: zzMacS, DestinationHardwareAddr: zzMacD, SourceIP: zzSrcs[src], DestinationIP: zzDst, DestinationPort: p}
				want[src]["tcp/"+strconv.Itoa(int(p))] = true
			case 1:
				p := zzPorts[zzLen(0, len(zzPorts)-1)]
				c.knockChan <- KnockUDPPort{SourceHardwareAddr: zzMacS, DestinationHardwareAddr: zzMacD, SourceIP: zzSrcs[src], DestinationIP: zzDst, DestinationPort: p}
				want[src]["udp/"+strconv.Itoa(int(p))] = true
			case 2:
				c.knockChan <- KnockICMP{SourceHardwareAddr: zzMacS, DestinationHardwareAddr: zzMacD, SourceIP: zzSrcs[src], DestinationIP: zzDst}
				want[src]["icmp"] = true
			}
		}
		rec.evs = nil
		zzTimers(1) // exactly one quiet-period tick
		zzQuiesce()
		if !zzSymbolic() {
			time.Sleep(5600 * time.Millisecond)
		}
		for s := 0; s < 2; s++ {
			var got []string
			for _, ev := range rec.evs {
				m := event.ToMap(ev)
				if m["category"] != "portscan" {
					continue
				}
				if m["source-ip"] != zzSrcs[s].String() {
					continue
				}
				zzAssert(m["destination-ip"] == zzDst.String(), "a port-scan event names the probed destination")
				ports, _ := m["portscan.ports"].([]string)
				got = append(got, ports...)
			}
			sort.Strings(got)
			var exp []string
			for p := range want[s] {
				exp = append(exp, p)
			}
			sort.Strings(exp)
			same := len(got) == len(exp)
			for i := 0; same && i < len(exp); i++ {
				same = got[i] == exp[i]
			}
			zzAssertMsg(same, "the port-scan events of a burst list exactly the distinct protocol/port pairs probed by the source, each once", zzListDiff(got, exp))
		}
	}
	cancel()
	zzQuiesce()
}

func zzListDiff(got, exp []string) string {
	switch {
	case len(got) > len(exp):
		return "duplicate or extra entries"
	case len(got) < len(exp):
		return "missing entries"
	}
	return "different entries"
}

// C20/detector-late: a probe of source A, then N further probes of source B, each arriving
// less than five seconds after the previous one (so the detector's quiet-period timer never
// fires in between) and together spanning more than a minute; then three quiet periods.
// Each source's scan is reported exactly once - however late the first report comes.
func zzH_C20_late() {
	rec := &zzRecChan{}
	c := &Canary{knockChan: make(chan interface{}, 100), events: rec}
	ctx, cancel := context.WithCancel(context.Background())
	zzTimers(0)
	go c.knockDetector(ctx)
	c.knockChan <- KnockTCPPort{SourceHardwareAddr: zzMacS, DestinationHardwareAddr: zzMacD, SourceIP: zzSrcs[0], DestinationIP: zzDst, DestinationPort: 80}
	zzQuiesce()
	n := zzParam("N", 13)
	for i := 0; i < n; i++ {
		gap := int64(4500 * time.Millisecond)
		zzClockAdvance(gap)
		if !zzSymbolic() {
			time.Sleep(time.Duration(gap))
		}
		c.knockChan <- KnockTCPPort{SourceHardwareAddr: zzMacS, DestinationHardwareAddr: zzMacD, SourceIP: zzSrcs[1], DestinationIP: zzDst, DestinationPort: zzPorts[i%len(zzPorts)]}
		zzQuiesce()
	}
	for tick := 0; tick < 3; tick++ {
		zzTimers(1)
		zzQuiesce()
		if !zzSymbolic() {
			time.Sleep(5300 * time.Millisecond)
		}
	}
	cnt := [2]int{}
	for _, ev := range rec.evs {
		m := event.ToMap(ev)
		if m["category"] != "portscan" {
			continue
		}
		for s := 0; s < 2; s++ {
			if m["source-ip"] == zzSrcs[s].String() {
				cnt[s]++
			}
		}
	}
	zzAssert(cnt[0] == 1, "a scan is reported exactly once, also when other sources' probes delay its report by more than a minute")
	zzAssert(cnt[1] == 1, "the other source's burst is reported exactly once")
	cancel()
	zzQuiesce()
}

// C20/detector-sweep (also C02: a flood of connection attempts must not stop the detector):
// one source probes M distinct TCP ports in one burst, then one more probe whose kind is
// arbitrary (a repeated TCP port, a UDP port, ICMP); one quiet-period tick. The scan is
// reported with exactly the distinct pairs, and a probe after the report is reported too
// (the detector goroutine, which has no recover, is still running).
func zzH_C20_sweep() {
	rec := &zzRecChan{}
	c := &Canary{knockChan: make(chan interface{}, 100), events: rec}
	ctx, cancel := context.WithCancel(context.Background())
	zzTimers(0)
	go c.knockDetector(ctx)
	m := zzParam("M", 150)
	for i := 0; i < m; i++ {
		c.knockChan <- KnockTCPPort{SourceHardwareAddr: zzMacS, DestinationHardwareAddr: zzMacD, SourceIP: zzSrcs[0], DestinationIP: zzDst, DestinationPort: uint16(1000 + i)}
	}
	extra := 0
	switch zzLen(0, 2) {
	case 0:
		c.knockChan <- KnockTCPPort{SourceHardwareAddr: zzMacS, DestinationHardwareAddr: zzMacD, SourceIP: zzSrcs[0], DestinationIP: zzDst, DestinationPort: uint16(1000 + m/2)}
	case 1:
		c.knockChan <- KnockUDPPort{SourceHardwareAddr: zzMacS, DestinationHardwareAddr: zzMacD, SourceIP: zzSrcs[0], DestinationIP: zzDst, DestinationPort: uint16(1000 + m/2)}
		extra = 1
	case 2:
		c.knockChan <- KnockICMP{SourceHardwareAddr: zzMacS, DestinationHardwareAddr: zzMacD, SourceIP: zzSrcs[0], DestinationIP: zzDst}
		extra = 1
	}
	zzTimers(1)
	zzQuiesce()
	if !zzSymbolic() {
		time.Sleep(5600 * time.Millisecond)
	}
	seen := map[string]int{}
	total := 0
	for _, ev := range rec.evs {
		em := event.ToMap(ev)
		if em["category"] != "portscan" {
			continue
		}
		ports, _ := em["portscan.ports"].([]string)
		for _, p := range ports {
			seen[p]++
			total++
		}
	}
	zzAssert(total == m+extra, "the port-scan events of a sweep list as many entries as distinct pairs were probed")
	for i := 0; i < m; i++ {
		zzAssert(seen["tcp/"+strconv.Itoa(1000+i)] == 1, "every swept TCP port is listed exactly once")
	}
	// the detector survives the sweep: a later probe is still reported
	rec.evs = nil
	c.knockChan <- KnockTCPPort{SourceHardwareAddr: zzMacS, DestinationHardwareAddr: zzMacD, SourceIP: zzSrcs[1], DestinationIP: zzDst, DestinationPort: 80}
	zzTimers(1)
	zzQuiesce()
	if !zzSymbolic() {
		time.Sleep(5600 * time.Millisecond)
	}
	later := 0
	for _, ev := range rec.evs {
		em := event.ToMap(ev)
		if em["category"] == "portscan" && em["source-ip"] == zzSrcs[1].String() {
			later++
		}
	}
	zzAssert(later == 1, "a probe after a sweep is still reported: the detector goroutine did not stop")
	cancel()
	zzQuiesce()
}
