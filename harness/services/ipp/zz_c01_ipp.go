//go:build verif

package ipp

// C01/ipp-decode: the IPP body decoder on every byte string of length 0..N. A panic in
// here is confined to the connection by the server's recover; what must not happen is a
// loop that keeps running (and allocating) without consuming input: every loop consumes
// at least one byte per iteration, so none may run more than len+2 times (derived trip
// bound = the property).
func zzH_C01_ipp() {
	n := zzLen(0, zzParam("N", 8))
	raw := zzBytes(n)
	m := &ippMsg{}
	zzUnwind(n+3, true)
	zzDidPanic(func() { m.decode(raw) })
	zzUnwind(0, false)
	zzAssert(len(m.attributes) <= n+2, "the decoder does not build more attribute groups than the body has bytes")
}
