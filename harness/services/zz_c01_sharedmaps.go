//go:build verif

package services

import (
	"context"
	"crypto/rand"
	"crypto/rsa"
	"crypto/x509"
	"io"
	"net"
	"runtime"

	"github.com/honeytrap/honeytrap/listener"
	tls "github.com/honeytrap/honeytrap/services/ja3/crypto/tls"
	"golang.org/x/time/rate"
)

// C01/tftp-shared-map: the server handles every datagram in its own goroutine on ONE
// service object. Two upload requests (or an upload and a data packet) from different
// clients, handled concurrently, must not touch the service's map of in-flight uploads
// without a common lock: that is a fatal "concurrent map writes", which no recover catches.
func zzH_C01_tftpmap() {
	zzRemaining, zzGrants = nil, 0
	s := TFTP().(*tftpService)
	s.SetChannel(&zzCRec{})
	mk := func(i int, kind int) *listener.DummyUDPConn {
		var p []byte
		if kind == 0 {
			p = []byte{0, 2, 'f', 0, 'o', 0} // WRQ "f" mode "o"
		} else {
			p = []byte{0, 3, 0, 1, 'x'} // DATA block 1
		}
		return &listener.DummyUDPConn{Buffer: p, Laddr: &net.UDPAddr{IP: net.IPv4(10, 0, 0, 1), Port: 69},
			Raddr: &net.UDPAddr{IP: net.IPv4(10, 9, 9, byte(1+i)), Port: 4000 + i}}
	}
	k0, k1 := zzLen(0, 1), zzLen(0, 1)
	done := 0
	for i, k := range []int{k0, k1} {
		c := mk(i, k)
		go func() {
			zzDidPanic(func() { s.Handle(context.Background(), c) })
			done++
		}()
	}
	zzQuiesce()
	zzAssert(done == 2, "both handlers finish")
}

// models of the expensive crypto in getCertificate (the map discipline is the subject)
func zzStubGenerateKey(r io.Reader, bits int) (*rsa.PrivateKey, error) { return &rsa.PrivateKey{}, nil }
func zzStubCreateCertificate(r io.Reader, template, parent *x509.Certificate, pub, priv interface{}) ([]byte, error) {
	return []byte("cert"), nil
}

var _ = rand.Reader

// C01/https-cert-cache: two TLS handshakes at the same time (one per connection goroutine)
// ask the shared https service for certificates; the per-name cache is a map shared by all
// connections and must only be touched under the service's lock.
func zzH_C01_httpscache() {
	s := &httpsService{cache: map[string]*tls.Certificate{}}
	names := []string{"a.example", "b.example"}
	n0, n1 := names[zzLen(0, 1)], names[zzLen(0, 1)]
	done := 0
	for _, n := range []string{n0, n1} {
		name := n
		go func() {
			s.getCertificate(&tls.ClientHelloInfo{ServerName: name})
			done++
		}()
	}
	zzQuiesce()
	zzAssert(done == 2, "both handshakes obtain a certificate")
}

func zzAllowAlways(l *rate.Limiter) bool { return true }

// C01/memcached-storage: a storage command announcing any byte count of 1..D decimal
// digits, followed by one byte of value and the end of the stream. Handling it must not
// commit memory proportional to the announced count.
func zzH_C01_memcachedset() {
	d := zzLen(1, zzParam("D", 9))
	digits := zzBytes(d)
	for i := 0; i < d; i++ {
		zzAssume(zzAnd(digits[i] >= '0', digits[i] <= '9'))
	}
	verb := []string{"set", "add", "append", "cas"}[zzLen(0, 3)]
	stream := append([]byte(verb+" k 0 0 "), digits...)
	stream = append(stream, "\r\nx"...)
	s := Memcached().(*memcachedService)
	s.SetChannel(&zzCRec{})
	var m0, m1 runtime.MemStats
	if !zzSymbolic() {
		runtime.ReadMemStats(&m0)
	}
	zzDidPanic(func() { s.Handle(context.Background(), &zzCutConn{data: stream, cut: len(stream)}) })
	if !zzSymbolic() {
		runtime.ReadMemStats(&m1)
		zzAssert(m1.TotalAlloc-m0.TotalAlloc < 4<<20, "allocation whose length is controlled by the input can exceed 1048576 elements")
	}
	zzAssert(true, "reached")
}
