package sx

import (
	"fmt"
	"go/types"
	"runtime/debug"

	"gosx/smt"

	"golang.org/x/tools/go/ssa"
)

// gor is an interpreted goroutine. Each one runs on its own native goroutine, but
// only the holder of the baton runs; all others are parked on their resume channel.
type gor struct {
	id        int
	resume    chan struct{}
	started   bool
	done      bool
	blocked   bool
	ready     func() bool
	what      string // what it is blocked on (for reports)
	stack     []*frame
	depth     int
	name      string
	held      map[*Obj]bool // mutexes held (lock-set analysis)
	exited    chan struct{}
	quiescing bool
}

type sendReq struct {
	val   Value
	taken bool
}

type ChanObj struct {
	ID       int
	cap      int
	buf      []Value
	closed   bool
	recvq    int
	sendq    []*sendReq
	elem     types.Type
	timer    bool      // time.After style channel: may fire once
	period   *smt.Term // ticker: re-arms itself after firing
	fired    bool
	deadline *smt.Term
	ctxDone  bool // context Done channel (closed by cancel)
}

func (e *Engine) newChan(n int, t types.Type) *ChanObj {
	e.nextObj++
	var elem types.Type
	if t != nil {
		if ct, ok := t.Underlying().(*types.Chan); ok {
			elem = ct.Elem()
		}
	}
	return &ChanObj{ID: e.nextObj, cap: n, elem: elem}
}

func (e *Engine) spawn(fn Value, args []Value, c *ssa.CallCommon) {
	g := &gor{id: len(e.goroutines), resume: make(chan struct{}), exited: make(chan struct{})}
	if cl, ok := fn.(*Closure); ok && cl != nil && cl.Fn != nil {
		g.name = cl.Fn.String()
	}
	e.goroutines = append(e.goroutines, g)
	go func() {
		<-g.resume
		g.started = true
		defer close(g.exited)
		defer func() {
			g.done = true
			r := recover()
			if e.killing {
				return
			}
			if r != nil {
				switch x := r.(type) {
				case abortPath:
					e.pendingAbort = &x
				case *goPanic:
					// a panic escaping a goroutine terminates the process
					e.cur = g
					e.addFinding("panic", "panic escaped goroutine "+g.name+" (process-fatal): "+x.msg, x.stack)
					e.pendingAbort = &abortPath{kind: "stop"}
				default:
					e.pendingAbort = &abortPath{kind: "unsupported", msg: fmt.Sprintf("internal error in goroutine: %v\n%s", r, debug.Stack())}
				}
				// wake main to abort the path
				main := e.goroutines[0]
				e.cur = main
				e.stack, e.depth = main.stack, main.depth
				main.resume <- struct{}{}
				return
			}
			// normal exit: hand the baton to someone else
			e.handoffFromDead(g)
		}()
		if e.killing {
			return
		}
		e.callValue(fn, args, c)
	}()
}

// handoffFromDead passes the baton on after goroutine g finished.
func (e *Engine) handoffFromDead(g *gor) {
	next := e.pickNext(nil)
	if next == nil {
		// everything else is blocked: wake main, which will detect the deadlock itself
		next = e.goroutines[0]
		e.deadlock = true
	}
	e.cur = next
	e.stack, e.depth = next.stack, next.depth
	next.resume <- struct{}{}
}

func (e *Engine) runnable(g *gor) bool {
	if g.done || g.quiescing {
		return false
	}
	if g.blocked {
		return g.ready != nil && g.ready()
	}
	return true
}

// pickNext chooses the next goroutine to run among the runnable ones (excluding
// `except`), forking over the alternatives while the context-switch budget lasts.
func (e *Engine) pickNext(except *gor) *gor {
	var cands []*gor
	for _, g := range e.goroutines {
		if g != except && e.runnable(g) {
			cands = append(cands, g)
		}
	}
	if len(cands) == 0 {
		return nil
	}
	if len(cands) == 1 {
		return cands[0]
	}
	budget := e.cfg.Params["__switches"]
	if e.schedForks >= budget {
		return cands[0]
	}
	e.schedForks++
	conds := make([]*smt.Term, len(cands))
	for i := range conds {
		conds[i] = e.ctx.True
	}
	return cands[e.chooseFree(len(cands))]
}

// chooseFree is a pure structural (schedule) choice among n alternatives.
func (e *Engine) chooseFree(n int) int {
	if e.pos < len(e.prefix) {
		idx := e.prefix[e.pos]
		e.pos++
		e.taken = append(e.taken, idx)
		return idx
	}
	e.pos++
	base := append([]int{}, e.taken...)
	for j := n - 1; j >= 1; j-- {
		e.work.push(append(append([]int{}, base...), j))
	}
	e.rep.Forks += n - 1
	e.taken = append(e.taken, 0)
	return 0
}

// block parks the current goroutine until ready() holds.
func (e *Engine) block(ready func() bool, what string) {
	me := e.cur
	if ready() {
		return
	}
	me.blocked, me.ready, me.what = true, ready, what
	for {
		next := e.pickNext(me)
		if next == nil {
			if ready() {
				break
			}
			// nobody can run: deadlock from the point of view of `me`
			e.onDeadlock(me)
			if ready() {
				break
			}
			continue
		}
		e.switchTo(next)
		if ready() {
			break
		}
	}
	me.blocked, me.ready, me.what = false, nil, ""
}

// yield is a voluntary scheduling point.
func (e *Engine) yield() {
	me := e.cur
	if len(e.goroutines) < 2 {
		return
	}
	budget := e.cfg.Params["__switches"]
	if e.schedForks >= budget {
		return
	}
	var cands []*gor
	for _, g := range e.goroutines {
		if g != me && e.runnable(g) {
			cands = append(cands, g)
		}
	}
	if len(cands) == 0 {
		return
	}
	e.schedForks++
	i := e.chooseFree(len(cands) + 1)
	if i == 0 {
		return
	}
	e.switchTo(cands[i-1])
}

func (e *Engine) switchTo(next *gor) {
	me := e.cur
	if next == me {
		return
	}
	me.stack, me.depth = e.stack, e.depth
	e.cur = next
	e.stack, e.depth = next.stack, next.depth
	next.resume <- struct{}{}
	<-me.resume
	if e.killing {
		panic(abortPath{kind: "killed"})
	}
	if e.pendingAbort != nil && me.id == 0 {
		a := *e.pendingAbort
		e.pendingAbort = nil
		panic(a)
	}
}

func (e *Engine) onDeadlock(me *gor) {
	if me.id != 0 {
		// a non-main goroutine found that nothing can run: let main decide
		main := e.goroutines[0]
		e.deadlock = true
		e.switchTo(main)
		return
	}
	if q, ok := e.extraCtx["quiescing"]; ok && q.(bool) {
		return
	}
	e.addFinding("blocked", "goroutine blocked forever: main blocked on "+me.what+"; "+e.blockedSummary(), e.stackNames())
	panic(abortPath{kind: "stop"})
}

func (e *Engine) blockedSummary() string {
	s := ""
	for _, g := range e.goroutines {
		if !g.done && g.blocked {
			s += fmt.Sprintf("[g%d %s on %s] ", g.id, g.name, g.what)
		}
	}
	return s
}

// quiesce runs every other goroutine until all are done or blocked.
func (e *Engine) quiesce() {
	me := e.cur
	e.extraCtx["quiescing"] = true
	defer delete(e.extraCtx, "quiescing")
	for {
		next := e.pickNext(me)
		if next == nil {
			return
		}
		me.blocked, me.ready, me.what = true, func() bool { return true }, "quiesce"
		me.quiescing = true
		e.switchTo(next)
		me.quiescing = false
		me.blocked, me.ready = false, nil
	}
}

func (e *Engine) liveGoroutines() (n int, names []string) {
	for _, g := range e.goroutines[1:] {
		if !g.done {
			n++
			names = append(names, fmt.Sprintf("%s blocked on %s", g.name, g.what))
		}
	}
	return
}

func (e *Engine) afterMain() {
	if len(e.goroutines) > 1 {
		e.quiesce()
	}
}

func (e *Engine) killGoroutines() {
	if len(e.goroutines) <= 1 {
		return
	}
	e.killing = true
	for _, g := range e.goroutines[1:] {
		if g.exitedClosed() {
			continue
		}
		select {
		case g.resume <- struct{}{}:
			<-g.exited
		case <-g.exited:
		}
	}
	e.killing = false
	e.pendingAbort = nil
	e.deadlock = false
	e.schedForks = 0
}

func (g *gor) exitedClosed() bool {
	select {
	case <-g.exited:
		return true
	default:
		return false
	}
}

// ---- channels ----

func (e *Engine) chanSend(ch *ChanObj, v Value) {
	if ch == nil {
		e.block(func() bool { return false }, "send on nil channel")
		return
	}
	if ch.closed {
		panic(&goPanic{msg: "send on closed channel", rt: true, stack: e.stackNames(), val: Iface{T: rtErrType, V: Str{S: "send on closed channel"}}})
	}
	if ch.cap > 0 {
		e.block(func() bool { return len(ch.buf) < ch.cap || ch.closed }, fmt.Sprintf("send on chan#%d (full)", ch.ID))
		if ch.closed {
			panic(&goPanic{msg: "send on closed channel", rt: true, stack: e.stackNames(), val: Iface{T: rtErrType, V: Str{S: "send on closed channel"}}})
		}
		ch.buf = append(ch.buf, v)
		return
	}
	if ch.recvq > 0 {
		ch.buf = append(ch.buf, v)
		ch.recvq-- // that receiver is served
		e.yieldAfterSend()
		return
	}
	req := &sendReq{val: v}
	ch.sendq = append(ch.sendq, req)
	e.block(func() bool { return req.taken || ch.recvq > 0 || ch.closed }, fmt.Sprintf("send on unbuffered chan#%d", ch.ID))
	if req.taken {
		return
	}
	// remove our request
	for i, r := range ch.sendq {
		if r == req {
			ch.sendq = append(append([]*sendReq{}, ch.sendq[:i]...), ch.sendq[i+1:]...)
			break
		}
	}
	if ch.closed {
		panic(&goPanic{msg: "send on closed channel", rt: true, stack: e.stackNames(), val: Iface{T: rtErrType, V: Str{S: "send on closed channel"}}})
	}
	ch.buf = append(ch.buf, v)
	ch.recvq--
}

func (e *Engine) yieldAfterSend() {}

func (e *Engine) recvReady(ch *ChanObj) bool {
	if ch == nil {
		return false
	}
	if ch.timer {
		if b, ok := e.extraCtx["timers"]; ok && b.(int) <= 0 {
			return false
		}
		return !ch.fired
	}
	if len(ch.buf) > 0 || ch.closed {
		return true
	}
	for _, r := range ch.sendq {
		if !r.taken {
			return true
		}
	}
	return false
}

func (e *Engine) takeRecv(ch *ChanObj) (Value, bool) {
	if ch.timer {
		ch.fired = true
		if b, ok := e.extraCtx["timers"]; ok {
			e.extraCtx["timers"] = b.(int) - 1
		}
		e.clockAdvanceTo(ch.deadline)
		if ch.period != nil {
			ch.fired = false
			ch.deadline = e.ctx.Add(ch.deadline, ch.period)
		}
		return e.nowTimeValue(), true
	}
	if len(ch.buf) > 0 {
		v := ch.buf[0]
		ch.buf = ch.buf[1:]
		return v, true
	}
	for _, r := range ch.sendq {
		if !r.taken {
			r.taken = true
			// drop from queue
			for i, q := range ch.sendq {
				if q == r {
					ch.sendq = append(append([]*sendReq{}, ch.sendq[:i]...), ch.sendq[i+1:]...)
					break
				}
			}
			return r.val, true
		}
	}
	if ch.closed {
		if ch.elem == nil {
			return &Struct{}, false
		}
		return e.zero(ch.elem), false
	}
	panic("gosx internal: takeRecv on non-ready channel")
}

func (e *Engine) chanRecv(ch *ChanObj, t types.Type) (Value, bool) {
	if ch == nil {
		e.block(func() bool { return false }, "receive on nil channel")
	}
	if !e.recvReady(ch) {
		ch.recvq++
		served := false
		e.block(func() bool { return len(ch.buf) > 0 || ch.closed || e.recvReady(ch) }, fmt.Sprintf("receive on chan#%d", ch.ID))
		_ = served
		// if a sender pushed into buf it already decremented recvq; otherwise undo our registration
		if len(ch.buf) == 0 || ch.cap > 0 {
			if ch.recvq > 0 {
				ch.recvq--
			}
		}
	}
	return e.takeRecv(ch)
}

func (e *Engine) chanClose(ch *ChanObj) {
	if ch == nil {
		e.goPanicRT("close of nil channel")
	}
	if ch.closed {
		panic(&goPanic{msg: "close of closed channel", rt: true, stack: e.stackNames(), val: Iface{T: rtErrType, V: Str{S: "close of closed channel"}}})
	}
	ch.closed = true
}

func (e *Engine) sendReady(ch *ChanObj) bool {
	if ch == nil {
		return false
	}
	if ch.closed {
		return true // will panic
	}
	if ch.cap > 0 {
		return len(ch.buf) < ch.cap
	}
	return ch.recvq > 0
}

func (e *Engine) selectOp(f *frame, x *ssa.Select) Value {
	type st struct {
		ch  *ChanObj
		val Value
	}
	states := make([]st, len(x.States))
	for i, s := range x.States {
		states[i].ch, _ = e.get(f, s.Chan).(*ChanObj)
		if s.Dir == types.SendOnly {
			states[i].val = e.get(f, s.Send)
		}
	}
	readyIdx := func() []int {
		var r []int
		for i, s := range x.States {
			if s.Dir == types.SendOnly {
				if e.sendReady(states[i].ch) {
					r = append(r, i)
				}
			} else if e.recvReady(states[i].ch) {
				r = append(r, i)
			}
		}
		return r
	}
	// a timer fires only when no other case is ready (quiet period): drop timer cases
	// from the ready set while a non-timer case is ready
	allReady := readyIdx
	readyIdx = func() []int {
		r := allReady()
		nonTimer := r[:0:0]
		for _, i := range r {
			if !states[i].ch.timer {
				nonTimer = append(nonTimer, i)
			}
		}
		if len(nonTimer) > 0 {
			return nonTimer
		}
		return r
	}
	rdy := readyIdx()
	onlyTimers := func(r []int) bool {
		for _, i := range r {
			if !states[i].ch.timer {
				return false
			}
		}
		return true
	}
	if x.Blocking && (len(rdy) == 0 || onlyTimers(rdy)) {
		// register as receiver on recv channels so that unbuffered senders can proceed
		for i, s := range x.States {
			if s.Dir != types.SendOnly && states[i].ch != nil && !states[i].ch.timer {
				states[i].ch.recvq++
			}
		}
		nonTimerReady := func() bool {
			r := readyIdx()
			return len(r) > 0 && !onlyTimers(r)
		}
		if len(rdy) == 0 {
			e.block(func() bool { return len(readyIdx()) > 0 }, "select")
		} else {
			// only timers could fire: let the others run first (timer fires when nothing else can happen),
			// or fire the timer now: fork.
			if len(e.goroutines) > 1 && e.schedForks < e.cfg.Params["__switches"] {
				e.schedForks++
				if e.chooseFree(2) == 1 {
					e.blockOrTimeout(nonTimerReady)
				}
			} else {
				e.blockOrTimeout(nonTimerReady)
			}
		}
		for i, s := range x.States {
			if s.Dir != types.SendOnly && states[i].ch != nil && !states[i].ch.timer {
				// undo registration unless a sender consumed it
				if states[i].ch.recvq > 0 && len(states[i].ch.buf) == 0 {
					states[i].ch.recvq--
				} else if states[i].ch.recvq > 0 && states[i].ch.cap > 0 {
					states[i].ch.recvq--
				}
			}
		}
		rdy = readyIdx()
	}
	nres := 2
	for _, s := range x.States {
		if s.Dir == types.RecvOnly {
			nres++
		}
	}
	res := make(Tuple, nres)
	fill := func() {
		k := 2
		for _, s := range x.States {
			if s.Dir == types.RecvOnly {
				if res[k] == nil {
					res[k] = e.zero(s.Chan.Type().Underlying().(*types.Chan).Elem())
				}
				k++
			}
		}
	}
	if len(rdy) == 0 {
		// non-blocking select with no ready case: default
		res[0], res[1] = e.intC(-1), e.ctx.False
		fill()
		return res
	}
	pick := rdy[0]
	if len(rdy) > 1 {
		pick = rdy[e.chooseFree(len(rdy))]
	}
	res[0] = e.intC(pick)
	res[1] = e.ctx.False
	if x.States[pick].Dir == types.SendOnly {
		ch := states[pick].ch
		if ch.closed {
			panic(&goPanic{msg: "send on closed channel", rt: true, stack: e.stackNames(), val: Iface{T: rtErrType, V: Str{S: "send on closed channel"}}})
		}
		ch.buf = append(ch.buf, states[pick].val)
		if ch.cap == 0 {
			ch.recvq--
		}
	} else {
		v, ok := e.takeRecv(states[pick].ch)
		res[1] = e.ctx.Bool(ok)
		k := 2
		for i, s := range x.States {
			if s.Dir == types.RecvOnly {
				if i == pick {
					res[k] = v
				}
				k++
			}
		}
	}
	fill()
	return res
}

// blockOrTimeout lets other goroutines run until `ready` holds or nothing else can run
// (in which case a pending timer is what wakes us up).
func (e *Engine) blockOrTimeout(ready func() bool) {
	me := e.cur
	for !ready() {
		me.blocked, me.ready, me.what = true, func() bool { return true }, "select (timer pending)"
		next := e.pickNext(me)
		me.blocked, me.ready = false, nil
		if next == nil {
			return
		}
		me.blocked, me.ready, me.what = true, func() bool { return true }, "select (timer pending)"
		e.switchTo(next)
		me.blocked, me.ready = false, nil
		// after others ran once, re-check; if still not ready and the others are now all blocked, time out
		if !ready() {
			anyRunnable := false
			for _, g := range e.goroutines {
				if g != me && e.runnable(g) {
					anyRunnable = true
				}
			}
			if !anyRunnable {
				return
			}
		}
	}
}
