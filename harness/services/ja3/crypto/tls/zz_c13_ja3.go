//go:build verif

package tls

func zzIsGrease(v uint16) bool {
	return zzAnd(v&0x0f0f == 0x0a0a, v>>8 == v&0xff)
}

// zzVal draws a 16-bit identifier in a decimal-width class chosen structurally
// (so that decimal formatting does not fork again): 4 or 5 digits in the quick tier,
// 1..5 digits in the thorough tier.
func zzVal() uint16 {
	v := zzU16()
	lo := 3
	if zzParam("WIDE", 0) == 1 {
		lo = 0
	}
	switch zzLen(lo, 4) {
	case 0:
		zzAssume(v < 10)
	case 1:
		zzAssume(zzAnd(v >= 10, v < 100))
	case 2:
		zzAssume(zzAnd(v >= 100, v < 1000))
	case 3:
		zzAssume(zzAnd(v >= 1000, v < 10000))
	case 4:
		zzAssume(v >= 10000)
	}
	return v
}

func zzPut16(b []byte, v uint16) []byte { return append(b, byte(v>>8), byte(v)) }

// zzDec16: decimal text of a 16-bit value in 16-bit arithmetic (64-bit division, which
// strconv would introduce, is needlessly hard for the solver). The digit count is decided
// by comparisons that the width class chosen in zzVal already implies.
func zzDec16(v uint16) string {
	switch {
	case v < 10:
		return string([]byte{'0' + byte(v)})
	case v < 100:
		return string([]byte{'0' + byte(v/10), '0' + byte(v%10)})
	case v < 1000:
		return string([]byte{'0' + byte(v/100), '0' + byte(v/10%10), '0' + byte(v%10)})
	case v < 10000:
		return string([]byte{'0' + byte(v/1000), '0' + byte(v/100%10), '0' + byte(v/10%10), '0' + byte(v%10)})
	}
	return string([]byte{'0' + byte(v/10000), '0' + byte(v/1000%10), '0' + byte(v/100%10), '0' + byte(v/10%10), '0' + byte(v%10)})
}

func zzJoin(vals []uint16, dropGrease bool) string {
	s := ""
	first := true
	for _, v := range vals {
		if dropGrease && zzIsGrease(v) {
			continue
		}
		if !first {
			s += "-"
		}
		first = false
		s += zzDec16(v)
	}
	return s
}

// C13/ja3: a ClientHello is built from a layout (number of ciphers, unknown extensions,
// curves, point formats, SNI yes/no) with all 16-bit identifiers symbolic; it is parsed
// by the real unmarshal, turned into the ClientHelloInfo the certificate callback
// receives, and its JA3 string is compared with the specification's JA3 computed from
// the raw values (wire order; GREASE values left out of ciphers, extensions and curves).
// zzMakeHello lays out a ClientHello (see zzH_C13_ja3) and returns its handshake message,
// the specification's JA3 string for it, the SNI sent and a label for findings.
func zzMakeHello(minVers, maxC, maxU, maxCv int) (msg []byte, want, sni, label string) {
	vers := uint16(0x0300 + zzLen(minVers, 3))
	nc := zzLen(1, maxC)
	var ciphers []uint16
	for i := 0; i < nc; i++ {
		ciphers = append(ciphers, zzVal())
	}
	nx := zzLen(0, maxU)
	var unknown []uint16
	for i := 0; i < nx; i++ {
		t := zzVal()
		// not one of the extension types the parser knows (those are laid out explicitly below)
		zzAssume(zzAnd(zzAnd(t > 35, t != 13172), t != 0xff01))
		unknown = append(unknown, t)
	}
	ncv := zzLen(0, maxCv)
	var curves []uint16
	for i := 0; i < ncv; i++ {
		curves = append(curves, zzVal())
	}
	npt := zzLen(0, 1)
	var points []uint8
	for i := 0; i < npt; i++ {
		p := zzU8()
		zzAssume(p < 10)
		points = append(points, p)
	}
	sni = ""
	if zzLen(0, 1) == 1 {
		sni = "a" + zzString(1) + ".io"
		zzAssume(zzAnd(sni[1] >= 'a', sni[1] <= 'z'))
	}
	emptyUnknownBody := true
	if nx > 0 {
		emptyUnknownBody = zzLen(0, 1) == 1
	}

	// ---- wire format ----
	var ext []byte
	var extOrder []uint16
	if sni != "" {
		body := zzPut16(nil, uint16(len(sni)+3))
		body = append(body, 0)
		body = zzPut16(body, uint16(len(sni)))
		body = append(body, sni...)
		ext = zzPut16(ext, extensionServerName)
		ext = zzPut16(ext, uint16(len(body)))
		ext = append(ext, body...)
		extOrder = append(extOrder, extensionServerName)
	}
	for i, t := range unknown {
		ext = zzPut16(ext, t)
		if emptyUnknownBody || i > 0 {
			ext = zzPut16(ext, 0)
		} else {
			ext = zzPut16(ext, 2)
			ext = append(ext, 0xde, 0xad)
		}
		extOrder = append(extOrder, t)
	}
	if ncv > 0 {
		ext = zzPut16(ext, extensionSupportedCurves)
		ext = zzPut16(ext, uint16(2+2*ncv))
		ext = zzPut16(ext, uint16(2*ncv))
		for _, c := range curves {
			ext = zzPut16(ext, c)
		}
		extOrder = append(extOrder, extensionSupportedCurves)
	}
	if npt > 0 {
		ext = zzPut16(ext, extensionSupportedPoints)
		ext = zzPut16(ext, uint16(1+npt))
		ext = append(ext, byte(npt))
		ext = append(ext, points...)
		extOrder = append(extOrder, extensionSupportedPoints)
	}
	body := zzPut16(nil, vers)
	body = append(body, make([]byte, 32)...) // random
	body = append(body, 0)                   // session id
	body = zzPut16(body, uint16(2*nc))
	for _, c := range ciphers {
		body = zzPut16(body, c)
	}
	body = append(body, 1, 0) // compression: null
	if len(ext) > 0 {
		body = zzPut16(body, uint16(len(ext)))
		body = append(body, ext...)
	}
	msg = append([]byte{typeClientHello, byte(len(body) >> 16), byte(len(body) >> 8), byte(len(body))}, body...)

	var pts16 []uint16
	for _, p := range points {
		pts16 = append(pts16, uint16(p))
	}
	want = zzDec16(vers) + "," + zzJoin(ciphers, true) + "," + zzJoin(extOrder, true) + "," + zzJoin(curves, true) + "," + zzJoin(pts16, false)
	return msg, want, sni, zzJa3Diff(ciphers, extOrder, curves)
}

func zzH_C13_ja3() {
	msg, want, sni, label := zzMakeHello(0, zzParam("CIPHERS", 2), zzParam("UNKNOWN", 1), zzParam("CURVES", 2))
	m := new(clientHelloMsg)
	ok := m.unmarshal(msg)
	zzAssert(ok, "a well-formed ClientHello is accepted by the parser")
	if !ok {
		return
	}
	hs := &serverHandshakeState{c: &Conn{}, clientHello: m}
	info := hs.clientHelloInfo()

	got := info.JA3()
	zzAssertMsg(got == want, "the JA3 string equals the specification's JA3 of the hello sent (wire order, GREASE left out of ciphers, extensions and curves)", label)
	zzAssert(info.ServerName == sni, "the recorded server name equals the SNI sent")
}

// which list contains a GREASE value (to tell findings apart)
func zzJa3Diff(ciphers, exts, curves []uint16) string {
	has := func(vs []uint16) bool {
		for _, v := range vs {
			if zzIsGrease(v) {
				return true
			}
		}
		return false
	}
	switch {
	case has(ciphers):
		return "hello with a GREASE cipher suite"
	case has(curves):
		return "hello with a GREASE curve"
	case has(exts):
		return "hello with a GREASE extension type"
	}
	return "hello without GREASE values"
}
