//go:build verif

package server

import (
	"net"
	"strconv"
)

// Model of net.ResolveTCPAddr / net.ResolveUDPAddr for the cases that need no DNS:
// empty host (wildcard) or an IP literal; any other host fails ("no such host").
// Natively the real resolver runs (offline: non-literal hosts fail as well).
func zzResolve(address string) (net.IP, int, error) {
	host, port, err := net.SplitHostPort(address)
	if err != nil {
		return nil, 0, err
	}
	p, err := strconv.Atoi(port)
	if err != nil || p < 0 || p > 65535 {
		return nil, 0, &net.AddrError{Err: "invalid port", Addr: address}
	}
	if host == "" {
		return nil, p, nil
	}
	ip := net.ParseIP(host)
	if ip == nil {
		return nil, 0, &net.AddrError{Err: "no such host", Addr: address}
	}
	return ip, p, nil
}

func zzStubResolveTCPAddr(network, address string) (*net.TCPAddr, error) {
	ip, p, err := zzResolve(address)
	if err != nil {
		return nil, err
	}
	return &net.TCPAddr{IP: ip, Port: p}, nil
}

func zzStubResolveUDPAddr(network, address string) (*net.UDPAddr, error) {
	ip, p, err := zzResolve(address)
	if err != nil {
		return nil, err
	}
	return &net.UDPAddr{IP: ip, Port: p}, nil
}

var zzProtos = []string{"tcp", "udp", "TCP", "sctp", ""}

// reference: is s a decimal number 0..65535 (digits only, at least one, leading zeros allowed)?
// (branch-free, so that the reference itself does not fork the path)
func zzDecimalPort(s string) (int, bool) {
	if len(s) == 0 {
		return 0, false
	}
	v := 0
	ok := true
	for i := 0; i < len(s); i++ {
		c := s[i]
		ok = zzAnd(ok, zzAnd(c >= '0', c <= '9'))
		v = v*10 + int(c-'0')
		ok = zzAnd(ok, zzAnd(v >= 0, v <= 65535))
	}
	return v, ok
}

func zzCheckAddr(addr net.Addr, proto string, wantIP net.IP, wantPort int) {
	switch proto {
	case "tcp":
		ta, ok := addr.(*net.TCPAddr)
		zzAssert(ok && ta != nil, "tcp entry yields a *net.TCPAddr")
		if ok && ta != nil {
			zzAssert(ta.Port == wantPort, "tcp address carries the configured port")
			zzAssert((wantIP == nil && ta.IP == nil) || (wantIP != nil && ta.IP.Equal(wantIP)), "tcp address carries the configured host")
		}
	case "udp":
		ua, ok := addr.(*net.UDPAddr)
		zzAssert(ok && ua != nil, "udp entry yields a *net.UDPAddr")
		if ok && ua != nil {
			zzAssert(ua.Port == wantPort, "udp address carries the configured port")
			zzAssert((wantIP == nil && ua.IP == nil) || (wantIP != nil && ua.IP.Equal(wantIP)), "udp address carries the configured host")
		}
	}
}

// C19/toaddr-port: "<proto>/<port>" where every byte of <port> (length 0..N) is
// symbolic (all 256 values except ':' '[' ']', which select the host:port form
// covered by the next harness).
func zzH_C19_toaddr_port() {
	proto := zzProtos[zzLen(0, len(zzProtos)-1)]
	n := zzLen(0, zzParam("N", 6))
	port := zzString(n)
	noSlash := true
	for i := 0; i < n; i++ {
		zzAssume(zzAnd(port[i] != ':', zzAnd(port[i] != '[', port[i] != ']')))
		noSlash = zzAnd(noSlash, port[i] != '/')
	}
	addr, rproto, rport, err := ToAddr(proto + "/" + port)
	v, okPort := zzDecimalPort(port)
	want := zzAnd(proto == "tcp" || proto == "udp", zzAnd(okPort, noSlash))
	zzAssert((err == nil) == want, "ToAddr accepts exactly proto in {tcp,udp} with a decimal port 0..65535")
	if err == nil {
		zzAssume(want)
		zzAssert(rproto == proto, "ToAddr returns the protocol")
		zzAssert(rport == v, "ToAddr returns the numeric port")
		zzCheckAddr(addr, proto, nil, v)
	}
}

var zzHosts = []struct {
	host string
	ok   bool
	ip   net.IP
}{
	{"", true, nil},
	{"127.0.0.1", true, net.IPv4(127, 0, 0, 1)},
	{"0.0.0.0", true, net.IPv4(0, 0, 0, 0)},
	{"[::1]", true, net.IPv6loopback},
	{"::1", false, nil},        // too many colons
	{"[127.0.0.1", false, nil}, // missing bracket
	{"nosuch.invalid", false, nil},
}

// C19/toaddr-digits: every decimal string of 1..6 digits (all 65 536 ports, leading
// zeros, 65536..999999) — the digits are assumed up front, so the parser's per-byte
// classification does not fork and the solver covers all values in a few paths.
func zzH_C19_toaddr_digits() {
	proto := zzProtos[zzLen(0, 1)]
	n := zzLen(1, 6)
	port := zzString(n)
	for i := 0; i < n; i++ {
		zzAssume(zzAnd(port[i] >= '0', port[i] <= '9'))
	}
	addr, rproto, rport, err := ToAddr(proto + "/" + port)
	v, okPort := zzDecimalPort(port)
	zzAssert((err == nil) == okPort, "a decimal port is accepted iff it is in 0..65535")
	if err == nil {
		zzAssume(okPort)
		zzAssert(zzAnd(rproto == proto, rport == v), "ToAddr returns protocol and the numeric port")
		zzCheckAddr(addr, proto, nil, v)
	}
}

// C19/toaddr-hostport: "<proto>/<host>:<port>" with hosts from a table of literal,
// bracketed, malformed and non-literal hosts, port digits symbolic.
func zzH_C19_toaddr_hostport() {
	proto := zzProtos[zzLen(0, 2)]
	h := zzHosts[zzLen(0, len(zzHosts)-1)]
	n := zzLen(1, zzParam("N", 5))
	port := zzString(n)
	for i := 0; i < n; i++ {
		zzAssume(zzAnd(zzAnd(port[i] != ':', port[i] != '/'), zzAnd(port[i] != '[', port[i] != ']')))
	}
	addr, rproto, rport, err := ToAddr(proto + "/" + h.host + ":" + port)
	v, okPort := zzDecimalPort(port)
	want := zzAnd((proto == "tcp" || proto == "udp") && h.ok, okPort)
	zzAssert((err == nil) == want, "ToAddr accepts exactly well-formed proto/host:port entries")
	if err == nil {
		zzAssume(want)
		zzAssert(zzAnd(rproto == proto, rport == v), "ToAddr returns protocol and port")
		zzCheckAddr(addr, proto, h.ip, v)
	}
}

// C19/compareAddr: the duplicate rule used for "first entry wins" and for dispatch.
func zzH_C19_compareaddr() {
	mk := func() net.Addr {
		kind := zzLen(0, 1)
		port := int(zzU16())
		var ip net.IP
		switch zzLen(0, 3) {
		case 0:
			ip = nil
		case 1:
			ip = net.IPv4(10, 0, 0, zzU8())
		case 2:
			ip = net.IP{10, 0, 0, zzU8()} // 4-byte form
		case 3:
			ip = net.IPv4zero
		}
		if kind == 0 {
			return &net.TCPAddr{IP: ip, Port: port}
		}
		return &net.UDPAddr{IP: ip, Port: port}
	}
	a, b := mk(), mk()
	got := compareAddr(a, b)
	ipOf := func(x net.Addr) (net.IP, int, int) {
		switch t := x.(type) {
		case *net.TCPAddr:
			return t.IP, t.Port, 0
		case *net.UDPAddr:
			return t.IP, t.Port, 1
		}
		return nil, 0, 2
	}
	ia, pa, ka := ipOf(a)
	ib, pb, kb := ipOf(b)
	want := ka == kb && pa == pb && (ia == nil || ib == nil || ia.Equal(ib))
	zzAssert(got == want, "two entries denote the same listener iff same protocol, same port and compatible addresses (nil is a wildcard)")
	zzAssert(compareAddr(b, a) == got, "the rule is symmetric")
}
