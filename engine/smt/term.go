// Package smt: hash-consed bit-vector/Boolean terms, a local simplifier and an
// SMT-LIB2 printer. All bit-vector widths are <= 64, so constants fit a uint64.
package smt

import (
	"fmt"
	"strings"
)

type Op uint8

const (
	OpConst Op = iota // bool or bv constant
	OpVar
	OpNot // bool
	OpAnd // bool, n-ary (binary here)
	OpOr
	OpEq // bool result; args same sort
	OpIte
	OpBVAdd
	OpBVSub
	OpBVMul
	OpBVUDiv
	OpBVURem
	OpBVSDiv
	OpBVSRem
	OpBVAnd
	OpBVOr
	OpBVXor
	OpBVNot
	OpBVNeg
	OpBVShl
	OpBVLShr
	OpBVAShr
	OpBVUlt
	OpBVUle
	OpBVSlt
	OpBVSle
	OpConcat
	OpExtract
	OpZExt
	OpSExt
	OpUF // uninterpreted function application: Name, args; result sort W
)

var opNames = map[Op]string{
	OpNot: "not", OpAnd: "and", OpOr: "or", OpEq: "=", OpIte: "ite",
	OpBVAdd: "bvadd", OpBVSub: "bvsub", OpBVMul: "bvmul", OpBVUDiv: "bvudiv", OpBVURem: "bvurem",
	OpBVSDiv: "bvsdiv", OpBVSRem: "bvsrem", OpBVAnd: "bvand", OpBVOr: "bvor", OpBVXor: "bvxor",
	OpBVNot: "bvnot", OpBVNeg: "bvneg", OpBVShl: "bvshl", OpBVLShr: "bvlshr", OpBVAShr: "bvashr",
	OpBVUlt: "bvult", OpBVUle: "bvule", OpBVSlt: "bvslt", OpBVSle: "bvsle", OpConcat: "concat",
}

// Term is an immutable hash-consed node. W == 0 means Bool.
type Term struct {
	ID   int
	Op   Op
	W    int
	Args []*Term
	C    uint64 // constant value (bool: 0/1)
	Name string // var / UF name
	Hi   int    // extract hi / ext amount
	Lo   int
}

func (t *Term) IsConst() bool { return t.Op == OpConst }
func (t *Term) IsBool() bool  { return t.W == 0 }
func (t *Term) IsTrue() bool  { return t.Op == OpConst && t.W == 0 && t.C == 1 }
func (t *Term) IsFalse() bool { return t.Op == OpConst && t.W == 0 && t.C == 0 }

// Ctx owns the hash-consing table. One per worker (not thread safe).
type Ctx struct {
	tab   map[string]*Term
	terms []*Term
	True  *Term
	False *Term
	UFs   map[string]string // name -> declaration line
}

func NewCtx() *Ctx {
	c := &Ctx{tab: map[string]*Term{}, UFs: map[string]string{}}
	c.True = c.mk(&Term{Op: OpConst, W: 0, C: 1})
	c.False = c.mk(&Term{Op: OpConst, W: 0, C: 0})
	return c
}

func (c *Ctx) NumTerms() int { return len(c.terms) }

func (c *Ctx) key(t *Term) string {
	var sb strings.Builder
	fmt.Fprintf(&sb, "%d:%d:%x:%s:%d:%d", t.Op, t.W, t.C, t.Name, t.Hi, t.Lo)
	for _, a := range t.Args {
		fmt.Fprintf(&sb, ",%d", a.ID)
	}
	return sb.String()
}

func (c *Ctx) mk(t *Term) *Term {
	k := c.key(t)
	if e, ok := c.tab[k]; ok {
		return e
	}
	t.ID = len(c.terms)
	c.terms = append(c.terms, t)
	c.tab[k] = t
	return t
}

func mask(w int) uint64 {
	if w >= 64 {
		return ^uint64(0)
	}
	return (uint64(1) << uint(w)) - 1
}

func sext64(v uint64, w int) int64 {
	if w >= 64 {
		return int64(v)
	}
	sh := uint(64 - w)
	return int64(v<<sh) >> sh
}

func (c *Ctx) Bool(b bool) *Term {
	if b {
		return c.True
	}
	return c.False
}

func (c *Ctx) BV(v uint64, w int) *Term {
	if w <= 0 || w > 64 {
		panic(fmt.Sprintf("smt: bad width %d", w))
	}
	return c.mk(&Term{Op: OpConst, W: w, C: v & mask(w)})
}

func (c *Ctx) Var(name string, w int) *Term {
	return c.mk(&Term{Op: OpVar, W: w, Name: name})
}

// UF applies an uninterpreted function (declared on first use).
func (c *Ctx) UF(name string, w int, args ...*Term) *Term {
	if _, ok := c.UFs[name]; !ok {
		var sb strings.Builder
		fmt.Fprintf(&sb, "(declare-fun %s (", name)
		for i, a := range args {
			if i > 0 {
				sb.WriteByte(' ')
			}
			sb.WriteString(sortStr(a.W))
		}
		fmt.Fprintf(&sb, ") %s)", sortStr(w))
		c.UFs[name] = sb.String()
	}
	return c.mk(&Term{Op: OpUF, W: w, Name: name, Args: args})
}

func sortStr(w int) string {
	if w == 0 {
		return "Bool"
	}
	return fmt.Sprintf("(_ BitVec %d)", w)
}

func (c *Ctx) Not(a *Term) *Term {
	if a.IsConst() {
		return c.Bool(a.C == 0)
	}
	if a.Op == OpNot {
		return a.Args[0]
	}
	return c.mk(&Term{Op: OpNot, Args: []*Term{a}})
}

func (c *Ctx) And(a, b *Term) *Term {
	if a.IsFalse() || b.IsFalse() {
		return c.False
	}
	if a.IsTrue() {
		return b
	}
	if b.IsTrue() {
		return a
	}
	if a == b {
		return a
	}
	if (a.Op == OpNot && a.Args[0] == b) || (b.Op == OpNot && b.Args[0] == a) {
		return c.False
	}
	return c.mk(&Term{Op: OpAnd, Args: []*Term{a, b}})
}

func (c *Ctx) Or(a, b *Term) *Term {
	if a.IsTrue() || b.IsTrue() {
		return c.True
	}
	if a.IsFalse() {
		return b
	}
	if b.IsFalse() {
		return a
	}
	if a == b {
		return a
	}
	if (a.Op == OpNot && a.Args[0] == b) || (b.Op == OpNot && b.Args[0] == a) {
		return c.True
	}
	return c.mk(&Term{Op: OpOr, Args: []*Term{a, b}})
}

func (c *Ctx) AndN(ts ...*Term) *Term {
	r := c.True
	for _, t := range ts {
		r = c.And(r, t)
	}
	return r
}

func (c *Ctx) OrN(ts ...*Term) *Term {
	r := c.False
	for _, t := range ts {
		r = c.Or(r, t)
	}
	return r
}

func (c *Ctx) Implies(a, b *Term) *Term { return c.Or(c.Not(a), b) }

func (c *Ctx) Eq(a, b *Term) *Term {
	if a.W != b.W {
		panic(fmt.Sprintf("smt: Eq sort mismatch %d vs %d", a.W, b.W))
	}
	if a == b {
		return c.True
	}
	if a.IsConst() && b.IsConst() {
		return c.Bool(a.C == b.C)
	}
	if a.W == 0 {
		if a.IsTrue() {
			return b
		}
		if b.IsTrue() {
			return a
		}
		if a.IsFalse() {
			return c.Not(b)
		}
		if b.IsFalse() {
			return c.Not(a)
		}
	}
	// zext(x)==const where const does not fit -> false; fits -> x == const'
	if b.IsConst() && a.Op == OpZExt {
		x := a.Args[0]
		if b.C > mask(x.W) {
			return c.False
		}
		return c.Eq(x, c.BV(b.C, x.W))
	}
	if a.IsConst() && b.Op == OpZExt {
		return c.Eq(b, a)
	}
	if a.ID > b.ID {
		a, b = b, a
	}
	return c.mk(&Term{Op: OpEq, Args: []*Term{a, b}})
}

func (c *Ctx) Ite(cond, a, b *Term) *Term {
	if a.W != b.W {
		panic("smt: Ite sort mismatch")
	}
	if cond.IsTrue() {
		return a
	}
	if cond.IsFalse() {
		return b
	}
	if a == b {
		return a
	}
	if a.W == 0 {
		if a.IsTrue() && b.IsFalse() {
			return cond
		}
		if a.IsFalse() && b.IsTrue() {
			return c.Not(cond)
		}
	}
	return c.mk(&Term{Op: OpIte, W: a.W, Args: []*Term{cond, a, b}})
}

func foldBin(op Op, a, b uint64, w int) (uint64, bool) {
	m := mask(w)
	switch op {
	case OpBVAdd:
		return (a + b) & m, true
	case OpBVSub:
		return (a - b) & m, true
	case OpBVMul:
		return (a * b) & m, true
	case OpBVUDiv:
		if b == 0 {
			return m, true
		}
		return a / b, true
	case OpBVURem:
		if b == 0 {
			return a, true
		}
		return a % b, true
	case OpBVSDiv:
		sa, sb := sext64(a, w), sext64(b, w)
		if sb == 0 {
			if sa >= 0 {
				return m, true
			}
			return 1, true
		}
		if sb == -1 {
			return uint64(-sa) & m, true
		}
		return uint64(sa/sb) & m, true
	case OpBVSRem:
		sa, sb := sext64(a, w), sext64(b, w)
		if sb == 0 {
			return a, true
		}
		if sb == -1 {
			return 0, true
		}
		return uint64(sa%sb) & m, true
	case OpBVAnd:
		return a & b, true
	case OpBVOr:
		return a | b, true
	case OpBVXor:
		return a ^ b, true
	case OpBVShl:
		if b >= uint64(w) {
			return 0, true
		}
		return (a << b) & m, true
	case OpBVLShr:
		if b >= uint64(w) {
			return 0, true
		}
		return a >> b, true
	case OpBVAShr:
		sa := sext64(a, w)
		if b >= uint64(w) {
			if sa < 0 {
				return m, true
			}
			return 0, true
		}
		return uint64(sa>>b) & m, true
	}
	return 0, false
}

func (c *Ctx) Bin(op Op, a, b *Term) *Term {
	if a.W != b.W || a.W == 0 {
		panic(fmt.Sprintf("smt: Bin %s sort mismatch %d vs %d", opNames[op], a.W, b.W))
	}
	w := a.W
	if a.IsConst() && b.IsConst() {
		if v, ok := foldBin(op, a.C, b.C, w); ok {
			return c.BV(v, w)
		}
	}
	switch op {
	case OpBVAdd:
		if a.IsConst() && a.C == 0 {
			return b
		}
		if b.IsConst() && b.C == 0 {
			return a
		}
		// (x + c1) + c2
		if b.IsConst() && a.Op == OpBVAdd && a.Args[1].IsConst() {
			return c.Bin(OpBVAdd, a.Args[0], c.BV(a.Args[1].C+b.C, w))
		}
		if a.IsConst() {
			a, b = b, a
		}
	case OpBVSub:
		if b.IsConst() && b.C == 0 {
			return a
		}
		if a == b {
			return c.BV(0, w)
		}
		if b.IsConst() {
			return c.Bin(OpBVAdd, a, c.BV(-b.C, w))
		}
	case OpBVMul:
		if a.IsConst() {
			a, b = b, a
		}
		if b.IsConst() {
			if b.C == 0 {
				return b
			}
			if b.C == 1 {
				return a
			}
		}
	case OpBVAnd:
		if a.IsConst() {
			a, b = b, a
		}
		if b.IsConst() {
			if b.C == 0 {
				return b
			}
			if b.C == mask(w) {
				return a
			}
			// zext(x) & m where m covers x's width fully
			if a.Op == OpZExt && b.C&mask(a.Args[0].W) == mask(a.Args[0].W) {
				return a
			}
		}
		if a == b {
			return a
		}
	case OpBVOr:
		if a.IsConst() {
			a, b = b, a
		}
		if b.IsConst() {
			if b.C == 0 {
				return a
			}
			if b.C == mask(w) {
				return b
			}
		}
		if a == b {
			return a
		}
	case OpBVXor:
		if a.IsConst() {
			a, b = b, a
		}
		if b.IsConst() && b.C == 0 {
			return a
		}
		if a == b {
			return c.BV(0, w)
		}
	case OpBVShl, OpBVLShr, OpBVAShr:
		if b.IsConst() && b.C == 0 {
			return a
		}
		if a.IsConst() && a.C == 0 {
			return a
		}
		if b.IsConst() && op == OpBVLShr && a.Op == OpZExt && b.C >= uint64(a.Args[0].W) {
			return c.BV(0, w)
		}
		if b.IsConst() && op != OpBVAShr && b.C >= uint64(w) {
			return c.BV(0, w)
		}
	case OpBVUDiv:
		if b.IsConst() && b.C == 1 {
			return a
		}
	}
	return c.mk(&Term{Op: op, W: w, Args: []*Term{a, b}})
}

func (c *Ctx) Add(a, b *Term) *Term { return c.Bin(OpBVAdd, a, b) }
func (c *Ctx) Sub(a, b *Term) *Term { return c.Bin(OpBVSub, a, b) }

func (c *Ctx) BVNot(a *Term) *Term {
	if a.IsConst() {
		return c.BV(^a.C, a.W)
	}
	if a.Op == OpBVNot {
		return a.Args[0]
	}
	return c.mk(&Term{Op: OpBVNot, W: a.W, Args: []*Term{a}})
}

func (c *Ctx) BVNeg(a *Term) *Term {
	if a.IsConst() {
		return c.BV(-a.C, a.W)
	}
	return c.mk(&Term{Op: OpBVNeg, W: a.W, Args: []*Term{a}})
}

// umax returns a cheap upper bound of an unsigned term.
func umax(t *Term) uint64 {
	switch t.Op {
	case OpConst:
		return t.C
	case OpZExt:
		return umax(t.Args[0])
	case OpIte:
		a, b := umax(t.Args[1]), umax(t.Args[2])
		if a > b {
			return a
		}
		return b
	case OpBVAnd:
		a, b := umax(t.Args[0]), umax(t.Args[1])
		if a < b {
			return a
		}
		return b
	case OpBVLShr:
		if t.Args[1].IsConst() && t.Args[1].C < 64 {
			return umax(t.Args[0]) >> t.Args[1].C
		}
	case OpBVURem:
		if t.Args[1].IsConst() && t.Args[1].C > 0 {
			return t.Args[1].C - 1
		}
	}
	return mask(t.W)
}

func (c *Ctx) Cmp(op Op, a, b *Term) *Term {
	if a.W != b.W || a.W == 0 {
		panic(fmt.Sprintf("smt: Cmp sort mismatch %d vs %d", a.W, b.W))
	}
	w := a.W
	if a.IsConst() && b.IsConst() {
		switch op {
		case OpBVUlt:
			return c.Bool(a.C < b.C)
		case OpBVUle:
			return c.Bool(a.C <= b.C)
		case OpBVSlt:
			return c.Bool(sext64(a.C, w) < sext64(b.C, w))
		case OpBVSle:
			return c.Bool(sext64(a.C, w) <= sext64(b.C, w))
		}
	}
	if a == b {
		return c.Bool(op == OpBVUle || op == OpBVSle)
	}
	// cheap range reasoning for unsigned and for signed when both sides are known non-negative
	am, bm := umax(a), umax(b)
	nonneg := am <= mask(w)>>1 && bm <= mask(w)>>1
	if op == OpBVUlt || op == OpBVUle || nonneg {
		strict := op == OpBVUlt || op == OpBVSlt
		if b.IsConst() {
			if strict && am < b.C {
				return c.True
			}
			if !strict && am <= b.C {
				return c.True
			}
			if strict && b.C == 0 {
				return c.False
			}
		}
		if a.IsConst() {
			if strict && a.C >= bm {
				return c.False
			}
			if !strict && a.C > bm {
				return c.False
			}
			if !strict && a.C == 0 {
				return c.True
			}
		}
	}
	return c.mk(&Term{Op: op, Args: []*Term{a, b}})
}

func (c *Ctx) Concat(hi, lo *Term) *Term {
	w := hi.W + lo.W
	if w > 64 {
		panic("smt: concat too wide")
	}
	if hi.IsConst() && lo.IsConst() {
		return c.BV(hi.C<<uint(lo.W)|lo.C, w)
	}
	return c.mk(&Term{Op: OpConcat, W: w, Args: []*Term{hi, lo}})
}

func (c *Ctx) Extract(a *Term, hi, lo int) *Term {
	if hi < lo || hi >= a.W || lo < 0 {
		panic(fmt.Sprintf("smt: bad extract [%d:%d] of width %d", hi, lo, a.W))
	}
	w := hi - lo + 1
	if w == a.W {
		return a
	}
	if a.IsConst() {
		return c.BV(a.C>>uint(lo), w)
	}
	switch a.Op {
	case OpZExt:
		x := a.Args[0]
		if hi < x.W {
			return c.Extract(x, hi, lo)
		}
		if lo >= x.W {
			return c.BV(0, w)
		}
		if lo == 0 {
			return c.ZExt(x, w)
		}
	case OpSExt:
		x := a.Args[0]
		if hi < x.W {
			return c.Extract(x, hi, lo)
		}
	case OpConcat:
		h, l := a.Args[0], a.Args[1]
		if hi < l.W {
			return c.Extract(l, hi, lo)
		}
		if lo >= l.W {
			return c.Extract(h, hi-l.W, lo-l.W)
		}
	case OpExtract:
		return c.Extract(a.Args[0], hi+a.Lo, lo+a.Lo)
	case OpBVAnd, OpBVOr, OpBVXor:
		if lo == 0 {
			// low bits of bitwise ops distribute
			return c.Bin(a.Op, c.Extract(a.Args[0], hi, 0), c.Extract(a.Args[1], hi, 0))
		}
	case OpBVAdd, OpBVSub, OpBVMul:
		if lo == 0 {
			return c.Bin(a.Op, c.Extract(a.Args[0], hi, 0), c.Extract(a.Args[1], hi, 0))
		}
	case OpBVShl:
		// (x << k)[hi:0]
		if lo == 0 && a.Args[1].IsConst() {
			k := int(a.Args[1].C)
			if k > hi {
				return c.BV(0, w)
			}
			return c.Bin(OpBVShl, c.Extract(a.Args[0], hi, 0), c.BV(uint64(k), w))
		}
	case OpBVLShr:
		if a.Args[1].IsConst() {
			k := int(a.Args[1].C)
			if hi+k < a.W {
				return c.Extract(a.Args[0], hi+k, lo+k)
			}
		}
	case OpIte:
		if a.Args[1].IsConst() || a.Args[2].IsConst() {
			return c.Ite(a.Args[0], c.Extract(a.Args[1], hi, lo), c.Extract(a.Args[2], hi, lo))
		}
	}
	return c.mk(&Term{Op: OpExtract, W: w, Args: []*Term{a}, Hi: hi, Lo: lo})
}

func (c *Ctx) ZExt(a *Term, w int) *Term {
	if w == a.W {
		return a
	}
	if w < a.W {
		return c.Extract(a, w-1, 0)
	}
	if a.IsConst() {
		return c.BV(a.C, w)
	}
	if a.Op == OpZExt {
		return c.ZExt(a.Args[0], w)
	}
	return c.mk(&Term{Op: OpZExt, W: w, Args: []*Term{a}, Hi: w - a.W})
}

func (c *Ctx) SExt(a *Term, w int) *Term {
	if w == a.W {
		return a
	}
	if w < a.W {
		return c.Extract(a, w-1, 0)
	}
	if a.IsConst() {
		return c.BV(uint64(sext64(a.C, a.W)), w)
	}
	if a.Op == OpZExt {
		return c.ZExt(a.Args[0], w)
	}
	return c.mk(&Term{Op: OpSExt, W: w, Args: []*Term{a}, Hi: w - a.W})
}

// SignedConst returns the signed interpretation of a constant.
func (t *Term) Signed() int64 { return sext64(t.C, t.W) }

// ---- printing ----

func (t *Term) ref() string {
	switch t.Op {
	case OpConst:
		if t.W == 0 {
			if t.C == 1 {
				return "true"
			}
			return "false"
		}
		if t.W%4 == 0 {
			return fmt.Sprintf("#x%0*x", t.W/4, t.C)
		}
		return fmt.Sprintf("(_ bv%d %d)", t.C, t.W)
	case OpVar:
		return t.Name
	}
	return fmt.Sprintf("t%d", t.ID)
}

// Ref is the SMT-LIB name under which the term is known after Define.
func (t *Term) Ref() string { return t.ref() }

func (t *Term) body() string {
	var sb strings.Builder
	switch t.Op {
	case OpExtract:
		fmt.Fprintf(&sb, "((_ extract %d %d) %s)", t.Hi, t.Lo, t.Args[0].ref())
	case OpZExt:
		fmt.Fprintf(&sb, "((_ zero_extend %d) %s)", t.Hi, t.Args[0].ref())
	case OpSExt:
		fmt.Fprintf(&sb, "((_ sign_extend %d) %s)", t.Hi, t.Args[0].ref())
	case OpUF:
		if len(t.Args) == 0 {
			return t.Name
		}
		sb.WriteString("(" + t.Name)
		for _, a := range t.Args {
			sb.WriteString(" " + a.ref())
		}
		sb.WriteString(")")
	default:
		sb.WriteString("(" + opNames[t.Op])
		for _, a := range t.Args {
			sb.WriteString(" " + a.ref())
		}
		sb.WriteString(")")
	}
	return sb.String()
}

// Decl returns the declaration/definition line for a term (empty for constants).
func (t *Term) Decl() string {
	switch t.Op {
	case OpConst:
		return ""
	case OpVar:
		return fmt.Sprintf("(declare-const %s %s)", t.Name, sortStr(t.W))
	}
	return fmt.Sprintf("(define-fun t%d () %s %s)", t.ID, sortStr(t.W), t.body())
}

// String renders a term as a nested expression (for evidence / debugging), size-capped.
func (t *Term) String() string {
	var sb strings.Builder
	t.str(&sb, 0)
	s := sb.String()
	if len(s) > 400 {
		s = s[:400] + "…"
	}
	return s
}

func (t *Term) str(sb *strings.Builder, depth int) {
	if sb.Len() > 400 {
		return
	}
	switch t.Op {
	case OpConst, OpVar:
		sb.WriteString(t.ref())
		return
	}
	if depth > 12 {
		sb.WriteString("…")
		return
	}
	switch t.Op {
	case OpExtract:
		fmt.Fprintf(sb, "(extract[%d:%d] ", t.Hi, t.Lo)
	case OpZExt:
		fmt.Fprintf(sb, "(zext%d ", t.W)
	case OpSExt:
		fmt.Fprintf(sb, "(sext%d ", t.W)
	case OpUF:
		sb.WriteString("(" + t.Name + " ")
	default:
		sb.WriteString("(" + opNames[t.Op] + " ")
	}
	for i, a := range t.Args {
		if i > 0 {
			sb.WriteByte(' ')
		}
		a.str(sb, depth+1)
	}
	sb.WriteByte(')')
}

// Eval evaluates a term under an assignment of variables (missing vars = 0). UF -> 0.
func (c *Ctx) Eval(t *Term, m map[string]uint64, memo map[int]uint64) uint64 {
	if v, ok := memo[t.ID]; ok {
		return v
	}
	var r uint64
	a := func(i int) uint64 { return c.Eval(t.Args[i], m, memo) }
	b2u := func(b bool) uint64 {
		if b {
			return 1
		}
		return 0
	}
	switch t.Op {
	case OpConst:
		r = t.C
	case OpVar:
		r = m[t.Name] & mask64(t.W)
	case OpNot:
		r = 1 - a(0)
	case OpAnd:
		r = a(0) & a(1)
	case OpOr:
		r = a(0) | a(1)
	case OpEq:
		r = b2u(a(0) == a(1))
	case OpIte:
		if a(0) == 1 {
			r = a(1)
		} else {
			r = a(2)
		}
	case OpBVNot:
		r = ^a(0) & mask(t.W)
	case OpBVNeg:
		r = -a(0) & mask(t.W)
	case OpBVUlt:
		r = b2u(a(0) < a(1))
	case OpBVUle:
		r = b2u(a(0) <= a(1))
	case OpBVSlt:
		r = b2u(sext64(a(0), t.Args[0].W) < sext64(a(1), t.Args[0].W))
	case OpBVSle:
		r = b2u(sext64(a(0), t.Args[0].W) <= sext64(a(1), t.Args[0].W))
	case OpConcat:
		r = a(0)<<uint(t.Args[1].W) | a(1)
	case OpExtract:
		r = (a(0) >> uint(t.Lo)) & mask(t.W)
	case OpZExt:
		r = a(0)
	case OpSExt:
		r = uint64(sext64(a(0), t.Args[0].W)) & mask(t.W)
	case OpUF:
		r = 0
	default:
		r, _ = foldBin(t.Op, a(0), a(1), t.W)
	}
	memo[t.ID] = r
	return r
}

func mask64(w int) uint64 {
	if w == 0 {
		return 1
	}
	return mask(w)
}
