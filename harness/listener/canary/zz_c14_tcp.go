//go:build verif

package canary

import (
	"net"

	rbuf "github.com/glycerine/rbuf"
	"github.com/honeytrap/honeytrap/listener/canary/ethernet"
	"github.com/honeytrap/honeytrap/listener/canary/ipv4"
	"github.com/honeytrap/honeytrap/listener/canary/tcp"
)

var (
	zzMyIP    = net.IPv4(127, 0, 0, 1) // the loopback address, so that the native twin (real interface list) agrees
	zzPeerIP  = net.IPv4(10, 0, 0, 2)
	zzPeer2IP = net.IPv4(10, 0, 0, 3)
	zzMyMAC   = net.HardwareAddr{2, 0, 0, 0, 0, 1}
	zzPeerMAC = net.HardwareAddr{2, 0, 0, 0, 0, 2}
)

// model of (*net.Interface).Addrs: the sensor's single interface address
func zzStubIfAddrs(ifi *net.Interface) ([]net.Addr, error) {
	return []net.Addr{&net.IPNet{IP: zzMyIP, Mask: net.CIDRMask(8, 32)}}, nil
}

func zzCanary() (*Canary, *zzRecChan) {
	rec := &zzRecChan{}
	c := &Canary{
		ac: ARPCache{
			{IP: zzPeerIP, HardwareAddress: zzPeerMAC, Interface: "eth0"},
			{IP: zzPeer2IP, HardwareAddress: zzPeerMAC, Interface: "eth0"},
		},
		descriptors:       map[string]int32{"eth0": 5},
		networkInterfaces: []net.Interface{{Index: 1, Name: "eth0", HardwareAddr: zzMyMAC}},
		knockChan:         make(chan interface{}, 100),
		events:            rec,
		buffer:            rbuf.NewFixedSizeRingBuf(65535),
	}
	if !zzSymbolic() {
		// native twin: isMe asks the real interface list; use the loopback address as "me"
		ifs, _ := net.Interfaces()
		for _, ifi := range ifs {
			addrs, _ := ifi.Addrs()
			for _, a := range addrs {
				if n, ok := a.(*net.IPNet); ok && n.IP.Equal(zzMyIP) {
					ifi.HardwareAddr = zzMyMAC
					c.networkInterfaces = []net.Interface{ifi}
					return c, rec
				}
			}
		}
	}
	return c, rec
}

// zzFrames drains the transmit ring: [2-byte length][frame]...
func zzFrames(c *Canary) [][]byte {
	var out [][]byte
	for c.buffer.Avail() >= 2 {
		var l [2]byte
		c.buffer.Read(l[:])
		n := int(l[0])<<8 | int(l[1])
		f := make([]byte, n)
		c.buffer.Read(f)
		out = append(out, f)
	}
	return out
}

// reference ones-complement sum, word-wise, as RFC 1071 states it
func zzSum16(acc uint32, b []byte) uint32 {
	for i := 0; i+1 < len(b); i += 2 {
		acc += uint32(b[i])<<8 | uint32(b[i+1])
	}
	if len(b)%2 == 1 {
		acc += uint32(b[len(b)-1]) << 8
	}
	return acc
}

func zzFold(acc uint32) uint16 {
	acc = (acc >> 16) + (acc & 0xffff)
	acc = (acc >> 16) + (acc & 0xffff)
	return uint16(acc)
}

type zzSeg struct {
	sport, dport uint16
	seq, ack     uint32
	flags        tcp.Flag
	window       uint16
	payload      []byte
	peer         net.IP
}

// zzInject hands one client segment to the real handleTCP, the way the receive loop does.
func zzInject(c *Canary, s zzSeg) {
	th := &tcp.Header{Source: s.sport, Destination: s.dport, SeqNum: s.seq, AckNum: s.ack, Ctrl: s.flags, Window: s.window, Payload: s.payload}
	data, _ := th.Marshal()
	eh := &ethernet.Frame{Source: zzPeerMAC, Destination: zzMyMAC, Type: 0x0800}
	iph := &ipv4.Header{Version: 4, Len: 20, TotalLen: 20 + len(data), Protocol: 6, Src: s.peer, Dst: zzMyIP, TTL: 64}
	c.handleTCP(eh, iph, data)
}

// zzCheckFrame: addressing and both checksums of an emitted frame; returns the TCP header fields.
func zzCheckFrame(f []byte, peer net.IP, sport, dport uint16) (seq, ack uint32, flags byte, ok bool) {
	zzAssert(len(f) >= 54, "an emitted frame carries ethernet, IPv4 and TCP headers")
	if len(f) < 54 {
		return
	}
	good := true
	for i := 0; i < 6; i++ {
		good = zzAnd(good, zzAnd(f[i] == zzPeerMAC[i], f[6+i] == zzMyMAC[i]))
	}
	zzAssert(zzAnd(good, zzAnd(f[12] == 8, f[13] == 0)), "the frame is addressed back to the sender's hardware address as IPv4")
	ip := f[14:34]
	p4, m4 := peer.To4(), zzMyIP.To4()
	addr := zzAnd(ip[0] == 0x45, ip[9] == 6)
	for i := 0; i < 4; i++ {
		addr = zzAnd(addr, zzAnd(ip[12+i] == m4[i], ip[16+i] == p4[i]))
	}
	zzAssert(addr, "the IPv4 header is from the sensor to the sender, protocol TCP")
	zzAssert(int(ip[2])<<8|int(ip[3]) == len(f)-14, "the IPv4 total length matches the frame")
	zzAssert(zzFold(zzSum16(0, ip)) == 0xffff, "the IPv4 header checksum is correct")
	seg := f[34:]
	ps := zzSum16(0, ip[12:20]) + 6 + uint32(len(seg))
	zzAssert(zzFold(zzSum16(ps, seg)) == 0xffff, "the TCP checksum (pseudo-header + segment) is correct")
	zzAssert(zzAnd(uint16(seg[0])<<8|uint16(seg[1]) == dport, uint16(seg[2])<<8|uint16(seg[3]) == sport), "the TCP ports are those of the connection, swapped")
	seq = uint32(seg[4])<<24 | uint32(seg[5])<<16 | uint32(seg[6])<<8 | uint32(seg[7])
	ack = uint32(seg[8])<<24 | uint32(seg[9])<<16 | uint32(seg[10])<<8 | uint32(seg[11])
	return seq, ack, seg[13] & 0x3f, true
}

// zzPortsWin draws ports and window: symbolic when the tier asks for it (param SYM=1),
// otherwise fixed (the sequence numbers stay symbolic in every tier). Fewer symbolic
// header bytes keep the checksum obligations within reach of the quick tier.
func zzPortsWin() (sport, dport, win uint16) {
	if zzParam("SYM", 0) == 1 {
		sport, dport, win = zzU16(), zzU16(), zzU16()
		zzAssume(zzAnd(sport != 22, dport != 22))
		return
	}
	return 40000, 8080, 29200
}

// C14/syn: a SYN with any client ISN / ports / window into a fresh listener.
func zzH_C14_syn() {
	c, _ := zzCanary()
	isn := zzU32()
	sport, dport, win := zzPortsWin()
	zzInject(c, zzSeg{sport: sport, dport: dport, seq: isn, flags: tcp.SYN, window: win, peer: zzPeerIP})
	fr := zzFrames(c)
	zzAssert(len(fr) == 1, "a SYN is answered with exactly one frame")
	if len(fr) != 1 {
		return
	}
	_, ack, flags, ok := zzCheckFrame(fr[0], zzPeerIP, sport, dport)
	if ok {
		zzAssert(flags == byte(tcp.SYN|tcp.ACK), "the answer to a SYN is a SYN-ACK")
		zzAssert(ack == isn+1, "the SYN-ACK acknowledges ISN+1 (modulo 2^32)")
	}
	st := c.stateTable.Get(zzPeerIP, zzMyIP, sport, dport)
	zzAssert(st != nil && st.State == SocketSynReceived, "the connection is in SYN-RECEIVED after the SYN")
}

// zzConn14 builds a connection state directly (arbitrary sequence numbers).
func zzConn14(c *Canary, peer net.IP, sport, dport uint16, st SocketState, iss, rcvNext uint32) *State {
	s := c.NewState(peer, sport, zzMyIP, dport)
	s.State = st
	s.InitialSendSequenceNumber = iss
	s.SendUnacknowledged = iss
	s.SendNext = iss + 2 // after the SYN-ACK (sent with sequence number ISS+1)
	if st != SocketSynReceived {
		s.SendUnacknowledged = iss + 2
	}
	s.RecvNext = rcvNext
	s.ID = 7
	if zzParam("SYM", 0) == 1 || zzParam("SYMID", 0) == 1 {
		s.ID = uint32(zzU16())
	}
	c.stateTable.Add(s)
	s.socket = s.NewSocket(&net.TCPAddr{IP: peer, Port: int(sport)}, &net.TCPAddr{IP: zzMyIP, Port: int(dport)})
	return s
}

// C14/ack-step: from SYN-RECEIVED with any server ISS, the client's ACK of the SYN-ACK
// establishes the connection.
func zzH_C14_ack() {
	c, _ := zzCanary()
	iss, isn, sport, dport := zzU32(), zzU32(), zzU16(), zzU16()
	zzAssume(zzAnd(sport != 22, dport != 22))
	// keep the data-less ACK off the decoded ports (their decoders are outside the claim)
	zzAssume(zzAnd(zzAnd(dport != 23, dport != 80), zzAnd(dport != 443, dport != 139)))
	zzAssume(zzAnd(zzAnd(dport != 445, dport != 1433), zzAnd(dport != 6379, dport != 9200)))
	s := zzConn14(c, zzPeerIP, sport, dport, SocketSynReceived, iss, isn+1)
	zzInject(c, zzSeg{sport: sport, dport: dport, seq: isn + 1, ack: iss + 2, flags: tcp.ACK, window: 1000, peer: zzPeerIP})
	zzAssert(s.State == SocketEstablished, "the client's ACK of the SYN-ACK establishes the connection for every server sequence number")
	zzAssert(len(zzFrames(c)) == 0, "a data-less ACK is not answered")
}

// C14/data-step: an in-order data segment in ESTABLISHED.
func zzH_C14_data() {
	c, _ := zzCanary()
	rcv := zzU32()
	iss := uint32(0xfffffff0) // near the wrap; symbolic in the thorough tier
	if zzParam("SYM", 0) == 1 {
		iss = zzU32()
	}
	sport, dport, _ := zzPortsWin()
	s := zzConn14(c, zzPeerIP, sport, dport, SocketEstablished, iss, rcv)
	n := zzLen(0, zzParam("N", 5))
	payload := zzBytes(n)
	orig := make([]byte, n)
	copy(orig, payload)
	flags := tcp.Flag(tcp.ACK)
	if zzBool() {
		flags |= tcp.PSH
	}
	zzInject(c, zzSeg{sport: sport, dport: dport, seq: rcv, ack: iss + 2, flags: flags, window: 1000, payload: payload, peer: zzPeerIP})
	zzAssert(s.RecvNext == rcv+uint32(n), "exactly the bytes received so far are acknowledged (modulo 2^32)")
	fr := zzFrames(c)
	if n == 0 {
		zzAssert(len(fr) == 0, "an empty segment is not acknowledged")
	} else {
		zzAssert(len(fr) == 1, "a data segment is acknowledged with exactly one frame")
		if len(fr) == 1 {
			seq, ack, fl, ok := zzCheckFrame(fr[0], zzPeerIP, sport, dport)
			if ok {
				zzAssert(fl == byte(tcp.ACK), "the acknowledgement is a pure ACK")
				zzAssert(ack == rcv+uint32(n), "the ACK number is the next byte expected")
				zzAssert(seq == iss+2, "the ACK carries the current send sequence number")
			}
		}
	}
	got := s.socket.rbuffer.Bytes()
	same := len(got) == n
	for i := 0; same && i < n; i++ {
		same = got[i] == orig[i]
	}
	zzAssert(same, "the payload reaches the connection's receive buffer unchanged")
}

// C14/fin-step: a FIN in ESTABLISHED.
func zzH_C14_fin() {
	c, _ := zzCanary()
	iss, rcv := uint32(0xfffffffd), zzU32() // server ISS near the wrap; symbolic in the thorough tier
	if zzParam("SYM", 0) == 1 {
		iss = zzU32()
	}
	sport, dport, _ := zzPortsWin()
	s := zzConn14(c, zzPeerIP, sport, dport, SocketEstablished, iss, rcv)
	zzInject(c, zzSeg{sport: sport, dport: dport, seq: rcv, ack: iss + 2, flags: tcp.FIN | tcp.ACK, window: 1000, peer: zzPeerIP})
	fr := zzFrames(c)
	zzAssert(len(fr) == 1, "a FIN is answered with exactly one frame")
	if len(fr) == 1 {
		_, ack, fl, ok := zzCheckFrame(fr[0], zzPeerIP, sport, dport)
		if ok {
			zzAssert(fl == byte(tcp.FIN|tcp.ACK), "a FIN is answered with FIN-ACK")
			zzAssert(ack == rcv+1, "the FIN is acknowledged (sequence number + 1)")
		}
	}
	zzAssert(s.State == SocketCloseWait, "the connection enters CLOSE-WAIT")
}

// C14/table: connections that differ in peer or in a port never share a state.
func zzH_C14_table() {
	c, _ := zzCanary()
	peers := []net.IP{zzPeerIP, zzPeer2IP}
	p1, p2 := peers[zzLen(0, 1)], peers[zzLen(0, 1)]
	sp1, dp1, sp2, dp2 := zzU16(), zzU16(), zzU16(), zzU16()
	different := zzOr(!p1.Equal(p2), zzOr(sp1 != sp2, dp1 != dp2))
	zzAssume(different)
	s1 := zzConn14(c, p1, sp1, dp1, SocketEstablished, 1000, 2000)
	s2 := zzConn14(c, p2, sp2, dp2, SocketEstablished, 3000, 4000)
	zzAssert(c.stateTable.Get(p1, zzMyIP, sp1, dp1) == s1, "a segment of connection 1 finds the state of connection 1")
	zzAssert(c.stateTable.Get(p2, zzMyIP, sp2, dp2) == s2, "a segment of connection 2 finds the state of connection 2, whatever ports it shares with connection 1")
}

// C14/two: two connections (same peer, ports symbolic) running side by side: the data
// segment of each is acknowledged with its own numbers.
func zzH_C14_two() {
	c, _ := zzCanary()
	spA, dpA, spB, dpB := zzU16(), zzU16(), zzU16(), zzU16()
	zzAssume(zzAnd(zzAnd(spA != 22, dpA != 22), zzAnd(spB != 22, dpB != 22)))
	zzAssume(zzOr(spA != spB, dpA != dpB))
	a := zzConn14(c, zzPeerIP, spA, dpA, SocketEstablished, 100, 5000)
	b := zzConn14(c, zzPeerIP, spB, dpB, SocketEstablished, 200, 9000)
	zzInject(c, zzSeg{sport: spB, dport: dpB, seq: 9000, ack: 202, flags: tcp.ACK | tcp.PSH, window: 1000, payload: []byte("bb"), peer: zzPeerIP})
	zzAssert(zzAnd(b.RecvNext == 9002, a.RecvNext == 5000), "a segment of one connection advances only that connection")
	fr := zzFrames(c)
	zzAssert(len(fr) == 1, "one acknowledgement is sent")
	if len(fr) == 1 {
		_, ack, _, ok := zzCheckFrame(fr[0], zzPeerIP, spB, dpB)
		if ok {
			zzAssert(ack == 9002, "the acknowledgement carries the numbers of the connection the data belongs to")
		}
	}
}

// C02/no-route: a SYN from a peer for which neither an ARP entry nor a route exists
// must be dropped (or answered) without crashing the receive loop.
func zzH_C02_noroute() {
	c, _ := zzCanary()
	stranger := net.IPv4(192, 168, 7, zzU8())
	switch zzLen(0, 2) {
	case 1:
		// a route whose gateway has no ARP entry either
		_, n, _ := net.ParseCIDR("192.168.0.0/16")
		c.rt = RouteTable{{Destination: *n, Gateway: net.IPv4(10, 9, 9, 9)}}
	case 2:
		// the peer is a neighbour on an interface the sensor does not listen on (the kernel's
		// ARP table lists the neighbours of every interface of a multi-homed host)
		stranger = net.IPv4(192, 168, 7, 7)
		c.ac = append(c.ac, ARPEntry{IP: stranger, HardwareAddress: zzPeerMAC, Interface: "eth9"})
	}
	isn := zzU32()
	msg := zzPanicMsg(func() {
		zzInject(c, zzSeg{sport: 40000, dport: 8080, seq: isn, flags: tcp.SYN, window: 1000, peer: stranger})
	})
	zzAssertMsg(msg == "", "a connection attempt from a peer without ARP or route entry does not crash the listener", msg)
	// a later well-formed probe from a known peer is still processed
	zzFrames(c)
	zzInject(c, zzSeg{sport: 40001, dport: 8080, seq: 1, flags: tcp.SYN, window: 1000, peer: zzPeerIP})
	zzAssert(len(zzFrames(c)) == 1, "a later well-formed SYN from a reachable peer is still answered")
}

// C20/syn-knock: every TCP connection attempt is handed to the scan detector.
func zzH_C20_synknock() {
	c, _ := zzCanary()
	isn, dport := zzU32(), zzU16()
	zzAssume(dport != 22)
	zzInject(c, zzSeg{sport: 40000, dport: dport, seq: isn, flags: tcp.SYN, window: 1000, peer: zzPeerIP})
	zzFrames(c)
	zzAssert(len(c.knockChan) == 1, "a TCP SYN enqueues exactly one knock for the scan detector")
	if len(c.knockChan) == 1 {
		k, ok := (<-c.knockChan).(KnockTCPPort)
		zzAssert(ok && k.DestinationPort == dport && k.SourceIP.Equal(zzPeerIP) && k.DestinationIP.Equal(zzMyIP), "the knock names the probed port and both addresses")
	}
}

// C02/tcp-sequence: K frames of one connection (each a SYN, ACK, data, FIN|ACK or RST with
// the sequence numbers a real client would use next), any order: the receive path must
// neither panic nor block, and afterwards a connection attempt on another port is still
// answered. (handleTCP runs in the receive loop: if it blocks, the listener is dead.)
func zzH_C02_tcpseq() {
	c, _ := zzCanary()
	sport, dport := uint16(40000), uint16(8080)
	isn := zzU32()
	k := zzParam("K", 4)
	zzTimers(0)
	for i := 0; i < k; i++ {
		st := c.stateTable.Get(zzPeerIP, zzMyIP, sport, dport)
		seq, ack := isn, uint32(0)
		if st != nil {
			seq, ack = st.RecvNext, st.SendNext
		} else if i > 0 {
			// no connection state left: the table is as it was before the first frame,
			// so longer sequences from here repeat shorter ones
			break
		}
		var flags tcp.Flag
		var payload []byte
		switch zzLen(0, 4) {
		case 0:
			flags, seq = tcp.SYN, isn
		case 1:
			flags = tcp.ACK
		case 2:
			flags, payload = tcp.ACK|tcp.PSH, []byte("x")
		case 3:
			flags = tcp.FIN | tcp.ACK
		case 4:
			flags = tcp.RST
		}
		msg := zzPanicMsg(func() {
			zzInject(c, zzSeg{sport: sport, dport: dport, seq: seq, ack: ack, flags: flags, window: 1000, payload: payload, peer: zzPeerIP})
		})
		zzAssertMsg(msg == "", "no TCP segment sequence crashes the receive path", msg)
		zzFrames(c)
	}
	zzInject(c, zzSeg{sport: 40001, dport: 8081, seq: 7, flags: tcp.SYN, window: 1000, peer: zzPeerIP})
	zzAssert(len(zzFrames(c)) == 1, "after any segment sequence a new connection attempt is still answered")
}

// C02/syn-ports: a connection attempt with any source and destination port (and any ISN)
// must not crash the receive path, and is answered.
func zzH_C02_synports() {
	c, _ := zzCanary()
	sport, dport, isn := zzU16(), zzU16(), zzU32()
	zzAssume(zzAnd(sport != 22, dport != 22))
	msg := zzPanicMsg(func() {
		zzInject(c, zzSeg{sport: sport, dport: dport, seq: isn, flags: tcp.SYN, window: 1000, peer: zzPeerIP})
	})
	zzAssertMsg(msg == "", "a SYN from any port does not crash the listener", msg)
	zzAssert(len(zzFrames(c)) == 1, "a SYN from any port is answered")
}

// stubs for the C02 sequence harness: checksum emission is not its subject (C14 covers it),
// and a fixed server ISN / IP ID keeps the carry-fold loops in send concrete.
func zzStubRandConst() uint32 { return 0x01020304 }

func zzStubNoTCPChecksum(iph *ipv4.Header, data []byte) {}

// C20/probe-knock: one probe of any kind - a TCP SYN from a peer the sensor can answer or
// from one it cannot (no ARP or route entry: spoofed or off-link source), a UDP datagram
// with 0..2 payload bytes to a port without a decoder, an ICMP echo request - is handed to
// the scan detector exactly once, naming protocol, port and both addresses.
func zzH_C20_probeknock() {
	c, _ := zzCanary()
	peer := zzPeerIP
	if zzBool() {
		peer = net.IPv4(192, 168, 7, 9) // no ARP entry, no route
	}
	eh := &ethernet.Frame{Source: zzPeerMAC, Destination: zzMyMAC, Type: 0x0800}
	dport := zzU16()
	kind := zzLen(0, 2)
	switch kind {
	case 0:
		zzAssume(dport != 22)
		zzDidPanic(func() {
			zzInject(c, zzSeg{sport: 40000, dport: dport, seq: zzU32(), flags: tcp.SYN, window: 1000, peer: peer})
		})
	case 1:
		zzAssume(zzAnd(zzAnd(dport != 53, dport != 123), zzAnd(zzAnd(dport != 1900, dport != 5060), zzAnd(dport != 161, dport != 162))))
		n := zzLen(0, 2)
		data := []byte{0x9c, 0x40, byte(dport >> 8), byte(dport), 0, byte(8 + n), 0, 0}
		data = append(data, zzBytes(n)...)
		iph := &ipv4.Header{Version: 4, Len: 20, TotalLen: 20 + len(data), Protocol: 17, Src: peer, Dst: zzMyIP, TTL: 64}
		c.handleUDP(eh, iph, data)
		zzQuiesce()
	case 2:
		data := []byte{8, 0, 0xf7, 0xff, 0, 1, 0, 1}
		iph := &ipv4.Header{Version: 4, Len: 20, TotalLen: 20 + len(data), Protocol: 1, Src: peer, Dst: zzMyIP, TTL: 64}
		c.handleICMP(eh, iph, data)
	}
	zzAssert(len(c.knockChan) == 1, "every probe is handed to the scan detector exactly once, whether or not the sensor can answer its source")
	if len(c.knockChan) != 1 {
		return
	}
	switch k := (<-c.knockChan).(type) {
	case KnockTCPPort:
		zzAssert(kind == 0 && k.DestinationPort == dport && k.SourceIP.Equal(peer) && k.DestinationIP.Equal(zzMyIP), "a TCP knock names the probed port and both addresses")
	case KnockUDPPort:
		zzAssert(kind == 1 && k.DestinationPort == dport && k.SourceIP.Equal(peer) && k.DestinationIP.Equal(zzMyIP), "a UDP knock names the probed port and both addresses")
	case KnockICMP:
		zzAssert(kind == 2 && k.SourceIP.Equal(peer) && k.DestinationIP.Equal(zzMyIP), "an ICMP knock names both addresses")
	default:
		zzAssert(false, "the knock is of the probe's protocol")
	}
}

// C14/close-step: the listener's handler has already closed its side (state FIN-WAIT-1 after
// the real Socket.Close, which sends the listener's FIN) or that FIN has been acknowledged
// (FIN-WAIT-2); now the client's FIN arrives, acknowledging either everything including the
// listener's FIN or only what came before it (the two FINs crossed). The client's FIN is
// answered with exactly one frame that acknowledges it.
func zzH_C14_close() {
	c, _ := zzCanary()
	iss, rcv := uint32(0xfffffffd), zzU32() // the listener's FIN crosses the wrap; symbolic in the thorough tier
	if zzParam("SYM", 0) == 1 {
		iss = zzU32()
	}
	sport, dport, _ := zzPortsWin()
	s := zzConn14(c, zzPeerIP, sport, dport, SocketEstablished, iss, rcv)
	s.socket.Close() // the handler is done: FIN sent, FIN-WAIT-1
	fr := zzFrames(c)
	zzAssert(len(fr) == 1 && s.State == SocketFinWait1, "closing the socket sends the listener's FIN")
	finSeq := iss + 2 // sequence number of the listener's FIN
	ackOfClient := finSeq
	if zzBool() {
		ackOfClient = finSeq + 1 // the client has seen the listener's FIN
	}
	if zzBool() {
		// a plain ACK of the listener's FIN first (FIN-WAIT-2)
		zzInject(c, zzSeg{sport: sport, dport: dport, seq: rcv, ack: finSeq + 1, flags: tcp.ACK, window: 1000, peer: zzPeerIP})
		zzAssert(len(zzFrames(c)) == 0, "a data-less ACK is not answered")
		ackOfClient = finSeq + 1
	}
	zzInject(c, zzSeg{sport: sport, dport: dport, seq: rcv, ack: ackOfClient, flags: tcp.FIN | tcp.ACK, window: 1000, peer: zzPeerIP})
	fr = zzFrames(c)
	zzAssert(len(fr) == 1, "the client's FIN is answered with exactly one frame, whether or not it acknowledges the listener's FIN")
	if len(fr) == 1 && len(fr[0]) >= 54 {
		// (checksums of emitted frames are the subject of the step harnesses)
		seg := fr[0][34:]
		ack := uint32(seg[8])<<24 | uint32(seg[9])<<16 | uint32(seg[10])<<8 | uint32(seg[11])
		fl := seg[13] & 0x3f
		zzAssert(fl&byte(tcp.ACK) != 0 && fl&byte(tcp.SYN|tcp.RST) == 0, "the answer is an acknowledgement")
		zzAssert(ack == rcv+1, "the client's FIN is acknowledged (sequence number + 1)")
	}
}

// C14/late-data: connection A has been reported and closed by its handler; connection B is
// set up afterwards; a further data segment of A arrives, then B's data. What B's handler
// finds in B's receive buffer is exactly B's own bytes.
func zzH_C14_late() {
	c, _ := zzCanary()
	spA, spB := uint16(40001), uint16(40002)
	dport := uint16(8080)
	a := zzConn14(c, zzPeerIP, spA, dport, SocketEstablished, 100, 5000)
	a.socket.Close() // A's handler is done
	zzFrames(c)
	b := zzConn14(c, zzPeerIP, spB, dport, SocketEstablished, 200, 9000)
	lateA, dataB := zzBytes(2), zzBytes(2)
	zzInject(c, zzSeg{sport: spA, dport: dport, seq: 5000, ack: 103, flags: tcp.ACK, window: 1000, payload: lateA, peer: zzPeerIP})
	zzInject(c, zzSeg{sport: spB, dport: dport, seq: 9000, ack: 202, flags: tcp.ACK, window: 1000, payload: dataB, peer: zzPeerIP})
	got := b.socket.rbuffer.Bytes()
	same := len(got) == 2
	for i := 0; same && i < 2; i++ {
		same = zzAnd(same, got[i] == dataB[i])
	}
	zzAssert(same, "a connection's receive buffer holds exactly the bytes of its own stream, whatever other connections send")
	zzAssert(b.RecvNext == 9002 && a.RecvNext == 5002, "each connection's data advances only its own sequence state")
}
