//go:build verif

package forward

import (
	"errors"
	"net"
	"strconv"
	"time"
)

type zzLConn struct{ local net.Addr }

func (c zzLConn) Read(b []byte) (int, error)         { return 0, errors.New("x") }
func (c zzLConn) Write(b []byte) (int, error)        { return len(b), nil }
func (c zzLConn) Close() error                       { return nil }
func (c zzLConn) LocalAddr() net.Addr                { return c.local }
func (c zzLConn) RemoteAddr() net.Addr               { return &net.TCPAddr{IP: net.IPv4(10, 9, 9, 9), Port: 40000} }
func (c zzLConn) SetDeadline(t time.Time) error      { return nil }
func (c zzLConn) SetReadDeadline(t time.Time) error  { return nil }
func (c zzLConn) SetWriteDeadline(t time.Time) error { return nil }

var zzDials []string

// recorder for net.Dial (natively the real Dial is attempted; the native twin compares nothing)
func zzStubDial(network, address string) (net.Conn, error) {
	zzDials = append(zzDials, network+" "+address)
	return nil, errors.New("zz: dial recorded")
}

// C15/forward-dial: the forwarding director dials exactly the configured backend: the
// configured host with the configured port, or else the port the client connected to, over
// the transport of the client's connection - and nothing else.
func zzH_C15_dial() {
	zzDials = nil
	port := int(zzU16())
	lo := 3
	switch zzLen(lo, 4) { // decimal width of the port chosen structurally
	case 3:
		zzAssume(zzAnd(port >= 1000, port < 10000))
	case 4:
		zzAssume(port >= 10000)
	}
	hosts := []struct{ cfg, host, port string }{{"10.1.1.1", "10.1.1.1", ""}, {"10.1.1.1:8022", "10.1.1.1", "8022"}, {"backend.internal", "backend.internal", ""}, {"[fd00::1]:53", "fd00::1", "53"}}
	h := hosts[zzLen(0, len(hosts)-1)]
	d := &forwardDirector{Host: h.cfg}
	kind := zzLen(0, 2)
	var local net.Addr
	want := ""
	switch kind {
	case 0:
		local, want = &net.TCPAddr{IP: net.IPv4(10, 0, 0, 1), Port: port}, "tcp"
	case 1:
		local, want = &net.UDPAddr{IP: net.IPv4(10, 0, 0, 1), Port: port}, "udp"
	case 2:
		local = &net.UnixAddr{Name: "/x", Net: "unix"}
	}
	_, err := d.Dial(zzLConn{local})
	if kind == 2 {
		zzAssert(err != nil && len(zzDials) == 0, "connections of another transport are not forwarded anywhere")
		return
	}
	if !zzSymbolic() {
		return
	}
	zzAssert(len(zzDials) == 1, "exactly one backend connection is opened")
	if len(zzDials) == 1 {
		p := h.port
		if p == "" {
			p = strconv.Itoa(port)
		}
		zzAssert(zzDials[0] == want+" "+net.JoinHostPort(h.host, p), "the address dialled is the configured backend (its own port if configured, else the port the client used), over the client's transport")
	}
}
