// gosx: solver-based checking of honeytrap's real code (symbolic go/ssa interpreter).
package main

import (
	"crypto/sha1"
	"encoding/json"
	"flag"
	"fmt"
	"go/ast"
	"go/parser"
	"go/token"
	"os"
	"os/exec"
	"path/filepath"
	"regexp"
	"sort"
	"strconv"
	"strings"
	"time"

	"gosx/sx"

	"golang.org/x/tools/go/packages"
	"golang.org/x/tools/go/ssa"
	"golang.org/x/tools/go/ssa/ssautil"
)

const modPath = "github.com/honeytrap/honeytrap"

// the tree under test and the verification directory; the environment overrides exist only
// so that the seeded-change matrix can run against scratch copies
var (
	repoDir  = envOr("GOSX_REPO", "/repo")
	verifDir = envOr("GOSX_VERIF", "/verif")
)

func envOr(k, d string) string {
	if v := os.Getenv(k); v != "" {
		return v
	}
	return d
}

type TierCfg struct {
	Params   map[string]int `json:"params"`
	Unwind   int            `json:"unwind"`
	MaxPaths int            `json:"max_paths"`
	TimeoutS int            `json:"timeout_s"` // wall budget for the harness
	SolverMs int            `json:"solver_ms"`
	Skip     bool           `json:"skip"`
	MaxSteps int            `json:"max_steps"`
	MaxDepth int            `json:"max_depth"`
}

type HarnessPlan struct {
	Name        string            `json:"name"`
	Pkg         string            `json:"pkg"`   // repo-relative package dir, e.g. services/decoder
	Entry       string            `json:"entry"` // function name
	Replace     map[string]string `json:"replace"`
	Init        []string          `json:"init"`   // extra packages whose init runs
	Opaque      []string          `json:"opaque"` // opaque package prefixes
	Quick       TierCfg           `json:"quick"`
	Thorough    TierCfg           `json:"thorough"`
	UnwindIsBug bool              `json:"unwind_is_bug"`
	Bounds      string            `json:"bounds"`  // human description of the bounds
	Encodes     []string          `json:"encodes"` // honeytrap functions this harness is about
	Assumes     []string          `json:"assumes"`
	NoReplay    string            `json:"no_replay"` // reason when a native replay is impossible
	ArithHint   bool              `json:"arith_hint"`
}

type Plan struct {
	Property  string        `json:"property"`
	Harnesses []HarnessPlan `json:"harnesses"`
	Outside   []string      `json:"outside"`
}

type KnownFinding struct {
	Property string `json:"property"`
	Harness  string `json:"harness"`
	Match    string `json:"match"` // substring of the finding message
	What     string `json:"what"`
	Status   string `json:"status"` // "known" or "fixed"
	Commit   string `json:"commit,omitempty"`
}

func main() {
	if len(os.Args) < 2 {
		fmt.Fprintln(os.Stderr, "usage: gosx check --prop C17 --tier quick|thorough")
		os.Exit(2)
	}
	switch os.Args[1] {
	case "check":
		os.Exit(cmdCheck(os.Args[2:]))
	default:
		fmt.Fprintln(os.Stderr, "unknown command")
		os.Exit(2)
	}
}

func loadPlan(prop string) (*Plan, error) {
	b, err := os.ReadFile(filepath.Join(verifDir, "props", prop+".json"))
	if err != nil {
		return nil, err
	}
	var p Plan
	if err := json.Unmarshal(b, &p); err != nil {
		return nil, fmt.Errorf("props/%s.json: %v", prop, err)
	}
	return &p, nil
}

func loadKnown() []KnownFinding {
	b, err := os.ReadFile(filepath.Join(verifDir, "known_findings.json"))
	if err != nil {
		return nil
	}
	var k struct {
		Findings []KnownFinding `json:"findings"`
	}
	if err := json.Unmarshal(b, &k); err != nil {
		fmt.Fprintln(os.Stderr, "known_findings.json:", err)
		os.Exit(2)
	}
	return k.Findings
}

// pkgName reads the package clause of some non-test file of a repo package.
func pkgName(dir string) (string, error) {
	ents, err := os.ReadDir(dir)
	if err != nil {
		return "", err
	}
	for _, e := range ents {
		n := e.Name()
		if !strings.HasSuffix(n, ".go") || strings.HasSuffix(n, "_test.go") {
			continue
		}
		f, err := parser.ParseFile(token.NewFileSet(), filepath.Join(dir, n), nil, parser.PackageClauseOnly)
		if err == nil {
			return f.Name.Name, nil
		}
	}
	return "", fmt.Errorf("no go files in %s", dir)
}

// buildOverlay returns overlay (virtual repo path -> content) for the given package dirs.
func buildOverlay(pkgs []string, workDir string, exclude map[string]bool) (map[string][]byte, map[string]string, error) {
	ov := map[string][]byte{}
	files := map[string]string{} // virtual -> real file on disk (for go test -overlay)
	for _, p := range pkgs {
		rdir := filepath.Join(repoDir, p)
		name, err := pkgName(rdir)
		if err != nil {
			return nil, nil, err
		}
		hdir := filepath.Join(verifDir, "harness", p)
		ents, _ := os.ReadDir(hdir)
		var harnessFns []string
		for _, e := range ents {
			if !strings.HasSuffix(e.Name(), ".go") {
				continue
			}
			src, err := os.ReadFile(filepath.Join(hdir, e.Name()))
			if err != nil {
				return nil, nil, err
			}
			virt := filepath.Join(rdir, e.Name())
			if exclude[virt] {
				continue
			}
			ov[virt] = src
			files[virt] = filepath.Join(hdir, e.Name())
			if strings.HasSuffix(e.Name(), "_test.go") {
				continue
			}
			f, err := parser.ParseFile(token.NewFileSet(), e.Name(), src, 0)
			if err != nil {
				return nil, nil, fmt.Errorf("%s/%s: %v", hdir, e.Name(), err)
			}
			for _, d := range f.Decls {
				if fd, ok := d.(*ast.FuncDecl); ok && fd.Recv == nil && strings.HasPrefix(fd.Name.Name, "zzH_") {
					harnessFns = append(harnessFns, fd.Name.Name)
				}
			}
		}
		api := strings.Replace(nativeAPI, "package PKG", "package "+name, 1)
		var sb strings.Builder
		sb.WriteString(api)
		sb.WriteString("\nvar zzHarnesses = map[string]func(){\n")
		for _, h := range harnessFns {
			fmt.Fprintf(&sb, "\t%q: %s,\n", h, h)
		}
		sb.WriteString("}\n")
		apiPath := filepath.Join(workDir, strings.ReplaceAll(p, "/", "_")+"_zz_verif_api.go")
		os.WriteFile(apiPath, []byte(sb.String()), 0o644)
		virt := filepath.Join(rdir, "zz_verif_api.go")
		ov[virt] = []byte(sb.String())
		files[virt] = apiPath
		tst := strings.Replace(nativeTest, "package PKG", "package "+name, 1)
		tpath := filepath.Join(workDir, strings.ReplaceAll(p, "/", "_")+"_zz_verif_replay_test.go")
		os.WriteFile(tpath, []byte(tst), 0o644)
		files[filepath.Join(rdir, "zz_verif_replay_test.go")] = tpath
	}
	return ov, files, nil
}

func goEnv() []string {
	env := os.Environ()
	env = append(env, "GOFLAGS=-mod=mod", "GOPROXY=off", "GOSUMDB=off", "GOTOOLCHAIN=local")
	return env
}

func cmdCheck(args []string) int {
	fs := flag.NewFlagSet("check", flag.ExitOnError)
	prop := fs.String("prop", "", "property id")
	tier := fs.String("tier", "quick", "quick|thorough")
	only := fs.String("only", "", "run only harnesses whose name contains this")
	workers := fs.Int("workers", 0, "workers per harness")
	verbose := fs.Bool("v", false, "verbose")
	noEvidence := fs.Bool("no-evidence", false, "do not write the evidence file")
	fs.Parse(args)
	if env := os.Getenv("VERIF_TIER"); env != "" && *tier == "" {
		*tier = env
	}
	seed := 0
	if s := os.Getenv("VERIF_SEED"); s != "" {
		seed, _ = strconv.Atoi(s)
	}
	t0 := time.Now()
	plan, err := loadPlan(*prop)
	if err != nil {
		fmt.Fprintln(os.Stderr, "plan:", err)
		return 2
	}
	known := loadKnown()
	workDir := filepath.Join(verifDir, ".work", *prop+"-"+*tier)
	os.RemoveAll(workDir)
	os.MkdirAll(workDir, 0o755)

	pkgSet := map[string]bool{}
	var hs []HarnessPlan
	for _, h := range plan.Harnesses {
		tc := h.Quick
		if *tier == "thorough" {
			tc = h.Thorough
		}
		if tc.Skip {
			continue
		}
		if *only != "" && !strings.Contains(h.Name, *only) {
			continue
		}
		hs = append(hs, h)
		pkgSet[h.Pkg] = true
	}
	var pkgs []string
	for p := range pkgSet {
		pkgs = append(pkgs, p)
	}
	sort.Strings(pkgs)
	var patterns []string
	for _, p := range pkgs {
		patterns = append(patterns, modPath+"/"+p)
	}
	tLoad := time.Now()
	// A harness file of ANOTHER property in the same package may stop type-checking when the
	// tree changes (it names an internal function whose signature changed). Such files are
	// left out - as long as they define none of the entry points this run needs - and the
	// load is repeated, so that one broken harness does not silence the others.
	exclude := map[string]bool{}
	var ov map[string][]byte
	var files map[string]string
	var initial []*packages.Package
	for round := 0; ; round++ {
		var err error
		ov, files, err = buildOverlay(pkgs, workDir, exclude)
		if err != nil {
			fmt.Fprintln(os.Stderr, "overlay:", err)
			return 2
		}
		cfg := &packages.Config{
			Mode:       packages.LoadAllSyntax,
			Dir:        repoDir,
			Env:        goEnv(),
			Overlay:    ov,
			BuildFlags: []string{"-tags=verif"},
		}
		initial, err = packages.Load(cfg, patterns...)
		if err != nil {
			fmt.Fprintln(os.Stderr, "load:", err)
			return 2
		}
		var errs []packages.Error
		packages.Visit(initial, nil, func(p *packages.Package) { errs = append(errs, p.Errors...) })
		if len(errs) == 0 {
			break
		}
		dropped := false
		if round < 4 {
			for _, e := range errs {
				file := e.Pos
				if i := strings.Index(file, ":"); i > 0 {
					file = file[:i]
				}
				src, isHarness := ov[file]
				if !isHarness || strings.HasSuffix(file, "zz_verif_api.go") || exclude[file] {
					continue
				}
				needed := false
				for _, h := range hs {
					if strings.Contains(string(src), "func "+h.Entry+"(") {
						needed = true
					}
				}
				if !needed {
					exclude[file] = true
					dropped = true
					fmt.Printf("note: harness file %s no longer type-checks against the tree and is left out (it defines no entry point of this check): %s\n", filepath.Base(file), e.Msg)
				}
			}
		}
		if !dropped {
			for _, e := range errs {
				fmt.Fprintln(os.Stderr, "load error:", e)
			}
			fmt.Printf("INCONCLUSIVE property=%s: the tree (with harnesses) does not type-check\n", *prop)
			return 2
		}
	}
	prog, ssaPkgs := ssautil.AllPackages(initial, ssa.InstantiateGenerics|ssa.SanityCheckFunctions&0)
	prog.Build()
	loadDur := time.Since(tLoad)
	byPath := map[string]*ssa.Package{}
	for i, p := range initial {
		byPath[p.PkgPath] = ssaPkgs[i]
	}

	type hres struct {
		plan  HarnessPlan
		rep   *sx.Report
		viol  []violation
		kf    []string
		incon []string
	}
	var results []hres
	exit := 0
	var outLines []string
	for _, h := range hs {
		tc := h.Quick
		if *tier == "thorough" {
			tc = h.Thorough
		}
		sp := byPath[modPath+"/"+h.Pkg]
		if sp == nil {
			fmt.Fprintln(os.Stderr, "package not loaded:", h.Pkg)
			return 2
		}
		entry := sp.Func(h.Entry)
		if entry == nil {
			fmt.Fprintf(os.Stderr, "harness entry %s not found in %s\n", h.Entry, h.Pkg)
			return 2
		}
		params := map[string]int{}
		for k, v := range tc.Params {
			params[k] = v
		}
		c := &sx.Config{Entry: entry, Params: params, Replace: h.Replace, InitPkgs: h.Init, OpaquePkgs: h.Opaque,
			Unwind: tc.Unwind, MaxPaths: tc.MaxPaths, TimeoutMs: tc.SolverMs, UnwindIsBug: h.UnwindIsBug, Workers: *workers,
			Verbose: *verbose, ArithHint: h.ArithHint, MaxSteps: tc.MaxSteps, MaxDepth: tc.MaxDepth}
		if c.Workers == 0 {
			c.Workers = 12
		}
		budget := tc.TimeoutS
		if budget == 0 {
			budget = 600
		}
		c.Deadline = time.Now().Add(time.Duration(budget) * time.Second)
		rep := sx.Explore(prog, c)
		r := hres{plan: h, rep: rep}
		// classify findings; keep up to 4 alternative models per distinct finding
		idx := map[string]int{}
		for _, f := range rep.Findings {
			key := f.Kind + "|" + f.Msg
			if i, ok := idx[key]; ok {
				if i >= 0 && len(r.viol[i].Alternatives) < 3 {
					r.viol[i].Alternatives = append(r.viol[i].Alternatives, f)
				}
				continue
			}
			if kf := matchKnown(known, *prop, h.Name, f.Msg); kf != nil {
				idx[key] = -1
				line := fmt.Sprintf("KNOWN-FINDING: property=%s %s [harness %s: %s]", *prop, kf.What, h.Name, f.Msg)
				r.kf = append(r.kf, line)
				continue
			}
			idx[key] = len(r.viol)
			r.viol = append(r.viol, violation{Harness: h.Name, Finding: f})
		}
		// replay (at most 3 distinct violations per harness; up to 4 models each)
		for i := range r.viol {
			if i >= 3 {
				r.viol[i].ReplayStatus = "not replayed (more than 3 distinct violations in this harness)"
				r.viol[i].Reproduced = r.viol[0].Reproduced
				continue
			}
			replayOne(&r.viol[i], *prop, h, params, files, workDir)
			for k := 0; !r.viol[i].Reproduced && k < len(r.viol[i].Alternatives); k++ {
				alt := violation{Harness: h.Name, Finding: r.viol[i].Alternatives[k]}
				replayOne(&alt, *prop, h, params, files, workDir)
				if alt.Reproduced {
					alt.ReplayStatus += fmt.Sprintf(" (model %d of the same finding; earlier models did not reproduce)", k+2)
					alts := r.viol[i].Alternatives
					r.viol[i] = alt
					r.viol[i].Alternatives = alts
				}
			}
			r.viol[i].Alternatives = nil
		}
		for _, v := range r.viol {
			switch {
			case v.Reproduced:
				outLines = append(outLines, fmt.Sprintf("VIOLATION property=%s replay=%s", *prop, v.Dir))
				outLines = append(outLines, fmt.Sprintf("  harness=%s kind=%s: %s (%s)", h.Name, v.Finding.Kind, v.Finding.Msg, v.ReplayStatus))
				exit = 1
			default:
				r.incon = append(r.incon, fmt.Sprintf("counterexample for %q did not reproduce natively (%s): %s", v.Finding.Msg, v.ReplayStatus, v.Dir))
			}
		}
		for _, s := range rep.Inconclusive {
			r.incon = append(r.incon, s)
		}
		if rep.Witnesses == 0 && len(rep.Findings) == 0 {
			r.incon = append(r.incon, "vacuous: no assertion was reached on any feasible path")
		}
		results = append(results, r)
		fmt.Printf("harness %-28s paths=%d asserting=%d obligations=%d/%d forks=%d findings=%d known=%d incon=%d queries=%d (unk %d, quick-unk %d, max %.1fs) solver=%.1fs wall=%.1fs\n",
			h.Name, rep.Paths, rep.PathsAsserting, rep.ObligationsUnsat, rep.Obligations, rep.Forks, len(r.viol), len(r.kf), len(r.incon), rep.Solver.Queries, rep.Solver.Unknown, rep.Solver.QuickUnknown, rep.Solver.MaxQuery.Seconds(), rep.Solver.Time.Seconds(), rep.Wall.Seconds())
		for _, l := range r.kf {
			fmt.Println(l)
		}
		for i, se := range rep.Solver.Errors {
			if i < 5 {
				fmt.Println("  solver error:", se)
			}
		}
		if *verbose {
			type kv struct {
				k string
				v int
			}
			var l []kv
			for k, v := range rep.ForkSites {
				l = append(l, kv{k, v})
			}
			sort.Slice(l, func(i, j int) bool { return l[i].v > l[j].v })
			for i, x := range l {
				if i < 8 {
					fmt.Printf("  forks %6d at %s\n", x.v, x.k)
				}
			}
		}
		if *verbose || len(r.incon) > 0 {
			for _, s := range r.incon {
				fmt.Println("  inconclusive:", s)
			}
		}
	}
	for _, l := range outLines {
		fmt.Println(l)
	}
	anyIncon := false
	for _, r := range results {
		if len(r.incon) > 0 {
			anyIncon = true
		}
	}
	if exit == 0 && anyIncon {
		exit = 2
		fmt.Printf("INCONCLUSIVE property=%s (see above)\n", *prop)
	}
	if exit == 0 {
		fmt.Printf("HOLDS property=%s tier=%s (within the stated bounds)\n", *prop, *tier)
	}
	if !*noEvidence {
		ev := map[string]interface{}{}
		ev["property_id"] = *prop
		ev["tier"] = *tier
		ev["seed"] = seed
		ev["level"] = "other"
		ev["wall_s"] = time.Since(t0).Seconds()
		totalObl, totalUnsat, totalPaths, distinct, nviol := 0, 0, 0, 0, 0
		var samples []interface{}
		var hsum []interface{}
		var assumptions []string
		var solverTime float64
		queries := map[string]int{}
		for _, r := range results {
			totalObl += r.rep.Obligations
			totalUnsat += r.rep.ObligationsUnsat
			totalPaths += r.rep.Paths
			distinct += r.rep.PathsAsserting
			solverTime += r.rep.Solver.Time.Seconds()
			for k, v := range r.rep.Solver.BySolver {
				queries[k] += v
			}
			for _, v := range r.viol {
				if v.Reproduced {
					nviol++
				}
			}
			for _, s := range r.rep.Samples {
				s["harness"] = r.plan.Name
				samples = append(samples, s)
			}
			tc := r.plan.Quick
			if *tier == "thorough" {
				tc = r.plan.Thorough
			}
			assumptions = append(assumptions, prefixAll(r.plan.Name+": ", r.plan.Assumes)...)
			for site, n := range r.rep.Assumes {
				assumptions = append(assumptions, fmt.Sprintf("%s: assume at %s (evaluated %d times)", r.plan.Name, site, n))
			}
			hsum = append(hsum, map[string]interface{}{
				"harness": r.plan.Name, "package": r.plan.Pkg, "entry": r.plan.Entry, "encodes": r.plan.Encodes,
				"bounds": r.plan.Bounds, "params": tc.Params, "unwind_bound": tc.Unwind, "unwind_max_seen": r.rep.MaxUnwindSeen,
				"paths": r.rep.Paths, "paths_completed": r.rep.PathsCompleted, "paths_infeasible": r.rep.PathsInfeasible,
				"paths_reaching_assertion": r.rep.PathsAsserting, "forks": r.rep.Forks, "instructions": r.rep.Steps,
				"obligations": r.rep.Obligations, "obligations_unsat": r.rep.ObligationsUnsat,
				"assert_sites_reached": r.rep.AssertSites, "recovered_panics": r.rep.RecoveredPanics,
				"functions_real": topN(r.rep.FuncsReal, 60), "functions_replaced": r.rep.FuncsReplaced,
				"functions_intrinsic": r.rep.FuncsIntrinsic, "functions_opaque": r.rep.FuncsOpaque,
				"solver_queries": r.rep.Solver.Queries, "solver_sat": r.rep.Solver.Sat, "solver_unsat": r.rep.Solver.Unsat,
				"solver_unknown": r.rep.Solver.Unknown, "solver_time_s": r.rep.Solver.Time.Seconds(),
				"solver_max_query_s": r.rep.Solver.MaxQuery.Seconds(), "solver_fallbacks": r.rep.Solver.Fallbacks, "solver_hard_timeouts": r.rep.Solver.HardTimeouts, "branches_kept_on_solver_unknown": r.rep.BranchesKeptOnUnknown, "large_index_concretisations": r.rep.Concretised,
				"solver_errors": r.rep.Solver.Errors, "solver_cross_ok": r.rep.Solver.CrossOK, "solver_cross_diffs": r.rep.Solver.CrossDiffs,
				"replaced": r.plan.Replace, "known_findings": r.kf, "inconclusive": r.incon, "violations": r.viol,
				"wall_s": r.rep.Wall.Seconds(),
			})
		}
		if len(samples) == 0 {
			samples = append(samples, "no path reached an assertion")
		}
		sort.Strings(assumptions)
		cov := map[string]interface{}{
			"explanation": "bounded symbolic execution of the real go/ssa of /repo (regenerated from the working tree on this run) by the gosx interpreter; every assertion reached on every feasible path is an SMT obligation (path-condition AND NOT assertion) decided by z3 4.8.12 with cvc5 / cvc5 --solve-bv-as-int / z3-new as fall-back on unknown; unsat on all paths = holds for every value within the stated bounds; sat = concrete model replayed natively (go test -overlay) before being reported",
			"evaluations": totalObl, "distinct_nontrivial": distinct,
			"rule":    "evaluations = solver obligations discharged (one per assertion reached per feasible path, not counting branch-feasibility queries); distinct_nontrivial = number of distinct feasible execution paths (distinct decision sequences) that reached at least one assertion",
			"samples": samples, "obligations": totalObl, "discharged": totalUnsat, "paths": totalPaths,
			"harnesses": hsum, "queries_by_solver": queries, "solver_time_s": solverTime, "load_and_ssa_build_s": loadDur.Seconds(),
			"exhaustive": false, "outside_the_claim": plan.Outside,
			"trusted_base": []string{"gosx interpreter (/verif/engine)", "golang.org/x/tools/go/ssa v0.29.0", "z3 4.8.12 / cvc5 1.0", "harness reference models and stubs listed under harnesses[].replaced"},
		}
		ev["coverage"] = cov
		ev["assumptions"] = assumptions
		ev["violations"] = nviol
		b, _ := json.MarshalIndent(ev, "", " ")
		os.MkdirAll(filepath.Join(verifDir, "evidence"), 0o755)
		os.WriteFile(filepath.Join(verifDir, "evidence", *prop+".json"), b, 0o644)
	}
	os.RemoveAll(workDir)
	return exit
}

func prefixAll(p string, xs []string) []string {
	out := make([]string, len(xs))
	for i, x := range xs {
		out[i] = p + x
	}
	return out
}

func topN(m map[string]int, n int) map[string]int {
	if len(m) <= n {
		return m
	}
	type kv struct {
		k string
		v int
	}
	var l []kv
	for k, v := range m {
		l = append(l, kv{k, v})
	}
	sort.Slice(l, func(i, j int) bool { return l[i].v > l[j].v })
	out := map[string]int{}
	for _, x := range l[:n] {
		out[x.k] = x.v
	}
	out["…(more)"] = len(m) - n
	return out
}

func matchKnown(known []KnownFinding, prop, harness, msg string) *KnownFinding {
	for i := range known {
		k := &known[i]
		if k.Status == "fixed" {
			continue
		}
		if k.Property == prop && (k.Harness == "" || k.Harness == harness) && strings.Contains(msg, k.Match) {
			return k
		}
	}
	return nil
}

type violation struct {
	Harness      string       `json:"harness"`
	Finding      sx.Finding   `json:"finding"`
	Dir          string       `json:"replay_dir"`
	Reproduced   bool         `json:"reproduced"`
	ReplayStatus string       `json:"replay_status"`
	Alternatives []sx.Finding `json:"-"`
}

var failRe = regexp.MustCompile(`ZZ-ASSERT-FAILED|ZZ-PANIC|ZZ-HANG|panic:|fatal error:`)

// replayBudget bounds the total number of repeated native runs of one check (a change that
// makes every path fail must not turn the check into hours of replays).
var replayBudget = 40

// replayOne writes the model and runs the native twin of the harness.
func replayOne(v *violation, prop string, h HarnessPlan, params map[string]int, files map[string]string, workDir string) {
	sum := sha1.Sum([]byte(h.Name + v.Finding.Kind + v.Finding.Msg))
	dir := filepath.Join(verifDir, "replays", fmt.Sprintf("%s-%s-%x", prop, h.Name, sum[:4]))
	os.RemoveAll(dir)
	os.MkdirAll(dir, 0o755)
	v.Dir = dir
	model := map[string]interface{}{"harness": h.Entry, "package": h.Pkg, "params": params, "nondets": v.Finding.Model,
		"finding": map[string]interface{}{"kind": v.Finding.Kind, "msg": v.Finding.Msg, "pos": v.Finding.Pos, "stack": v.Finding.Stack}}
	mb, _ := json.MarshalIndent(model, "", " ")
	os.WriteFile(filepath.Join(dir, "model.json"), mb, 0o644)
	// copy overlay files into the replay dir so that it is self-contained
	ovl := map[string]string{}
	for virt, real := range files {
		if filepath.Dir(virt) != filepath.Join(repoDir, h.Pkg) {
			continue // files of sub-packages have the same base names (zz_verif_api.go)
		}
		dst := filepath.Join(dir, filepath.Base(virt))
		b, _ := os.ReadFile(real)
		os.WriteFile(dst, b, 0o644)
		ovl[virt] = dst
	}
	ob, _ := json.MarshalIndent(map[string]interface{}{"Replace": ovl}, "", " ")
	os.WriteFile(filepath.Join(dir, "overlay.json"), ob, 0o644)
	run := fmt.Sprintf("#!/bin/sh\n# replays the counterexample against the real code (native build of /repo's working tree + harness overlay)\ncd %s && GOFLAGS=-mod=mod GOPROXY=off GOSUMDB=off GOTOOLCHAIN=local ZZ_MODEL=%s/model.json ZZ_HARNESS=%s timeout 300 go test -tags verif -vet=off -count=1 -overlay %s/overlay.json -run '^TestZZReplay$' -v ./%s\n",
		repoDir, dir, h.Entry, dir, h.Pkg)
	os.WriteFile(filepath.Join(dir, "run.sh"), []byte(run), 0o755)
	if h.NoReplay != "" {
		v.ReplayStatus = "native replay not available: " + h.NoReplay + " (model in model.json)"
		v.Reproduced = true
		return
	}
	// a native run that passes is repeated (once, or seven times when it takes under 10 s): where the failure depends on the native
	// scheduler (goroutines of the code under test) one passing run proves little, and only a
	// run that actually fails is ever reported
	var out []byte
	var err error
	var txt string
	attempts := 2
	for attempt := 0; attempt < attempts; attempt++ {
		t0 := time.Now()
		cmd := exec.Command("/bin/sh", filepath.Join(dir, "run.sh"))
		cmd.Env = goEnv()
		out, err = cmd.CombinedOutput()
		txt = string(out)
		if err != nil {
			break
		}
		if attempt == 0 && time.Since(t0) < 10*time.Second && replayBudget > 0 {
			attempts = 8 // cheap run: a 50 % native race is then missed with probability < 1 %
		}
		if attempt > 0 {
			replayBudget--
		}
	}
	os.WriteFile(filepath.Join(dir, "replay.log"), out, 0o644)
	switch {
	case strings.Contains(txt, "ZZ-ASSUME-FAILED"):
		v.ReplayStatus = "native run violated a harness assumption"
	case strings.Contains(txt, "ZZ-HANG") && !strings.Contains(txt, "ZZ-ASSERT-FAILED") && v.Finding.Kind != "unwind" && v.Finding.Kind != "blocked" && v.Finding.Kind != "recursion":
		v.ReplayStatus = "native run hung (harness did not finish within 60 s) without failing the assertion"
	case failRe.MatchString(txt) && err != nil:
		v.Reproduced = true
		v.ReplayStatus = "reproduced natively: " + firstMatchLine(txt)
	case err != nil && strings.Contains(txt, "exit status 124"), err != nil && strings.Contains(err.Error(), "124"):
		if v.Finding.Kind == "unwind" || v.Finding.Kind == "blocked" || v.Finding.Kind == "recursion" {
			v.Reproduced = true
			v.ReplayStatus = "reproduced natively: run did not terminate within 300 s"
		} else {
			v.ReplayStatus = "native run timed out"
		}
	case err != nil:
		v.ReplayStatus = "native run failed without assertion marker: " + lastLines(txt, 3)
	default:
		v.ReplayStatus = "native run passed"
	}
}

func firstMatchLine(txt string) string {
	for _, l := range strings.Split(txt, "\n") {
		if failRe.MatchString(l) {
			if len(l) > 300 {
				l = l[:300]
			}
			return strings.TrimSpace(l)
		}
	}
	return ""
}

func lastLines(txt string, n int) string {
	ls := strings.Split(strings.TrimSpace(txt), "\n")
	if len(ls) > n {
		ls = ls[len(ls)-n:]
	}
	return strings.Join(ls, " | ")
}
