//go:build verif

package ssh

import (
	"context"
	"io"
	"net"

	"golang.org/x/crypto/ssh"
)

type zzSSHConn struct{ zzMeta }

func (zzSSHConn) SendRequest(name string, wantReply bool, payload []byte) (bool, []byte, error) {
	return false, nil, nil
}
func (zzSSHConn) OpenChannel(name string, data []byte) (ssh.Channel, <-chan *ssh.Request, error) {
	return nil, nil, io.EOF
}
func (zzSSHConn) Close() error { return nil }
func (zzSSHConn) Wait() error  { return nil }

type zzChannel struct{ out []byte }

func (c *zzChannel) Read(b []byte) (int, error)  { return 0, io.EOF }
func (c *zzChannel) Write(b []byte) (int, error) { c.out = append(c.out, b...); return len(b), nil }
func (c *zzChannel) Close() error                { return nil }
func (c *zzChannel) CloseWrite() error           { return nil }
func (c *zzChannel) SendRequest(name string, wantReply bool, payload []byte) (bool, error) {
	return false, nil
}
func (c *zzChannel) Stderr() io.ReadWriter { return nil }

type zzNewCh struct {
	typ  string
	reqs chan *ssh.Request
}

func (n *zzNewCh) Accept() (ssh.Channel, <-chan *ssh.Request, error) {
	return &zzChannel{}, n.reqs, nil
}
func (n *zzNewCh) Reject(reason ssh.RejectionReason, message string) error { return nil }
func (n *zzNewCh) ChannelType() string                                     { return n.typ }
func (n *zzNewCh) ExtraData() []byte                                       { return zzExtra }

var (
	zzReqType    string
	zzReqPayload []byte
	zzChanType   string
	zzExtra      []byte
)

// model of ssh.NewServerConn for an authenticated client that opens one channel and sends
// one request on it (type and payload chosen by the harness), then disconnects
func zzStubNewServerConnReq(c net.Conn, config *ssh.ServerConfig) (*ssh.ServerConn, <-chan ssh.NewChannel, <-chan *ssh.Request, error) {
	reqs := make(chan *ssh.Request, 1)
	reqs <- &ssh.Request{Type: zzReqType, WantReply: false, Payload: zzReqPayload}
	close(reqs)
	chans := make(chan ssh.NewChannel, 1)
	chans <- &zzNewCh{typ: zzChanType, reqs: reqs}
	close(chans)
	global := make(chan *ssh.Request)
	close(global)
	return &ssh.ServerConn{Conn: zzSSHConn{}}, chans, global, nil
}

var zzReqTypes = []string{"env", "exec", "subsystem", "tcpip-forward", "pty-req", "x11-req"}
var zzChanTypes = []string{"session", "direct-tcpip", "forwarded-tcpip", "weird"}

// C01/ssh-requests: one channel of any kind with arbitrary extra data, one request of any
// of six kinds with an arbitrary payload of 0..N bytes. Panics are confined by the server's
// recover; no loop may run more than len/4+2 times (each iteration decodes a 4-byte length).
func zzH_C01_sshreq() {
	rec := &zzSRec{}
	s := &sshSimulatorService{Banner: "SSH-2.0-x", MaxAuthTries: -1, Credentials: []string{"*"}}
	s.SetChannel(rec)
	zzChanType = zzChanTypes[zzLen(0, len(zzChanTypes)-1)]
	zzExtra = nil
	n := 0
	if zzChanType == "session" {
		zzReqType = zzReqTypes[zzLen(0, len(zzReqTypes)-1)]
		n = zzLen(0, zzParam("N", 6))
		zzReqPayload = zzBytes(n)
	} else {
		n = zzLen(0, zzParam("N", 6))
		zzExtra = zzBytes(n)
	}
	zzUnwindIn("sshSimulatorService).Handle", n/4+3, true)
	zzDidPanic(func() { s.Handle(context.Background(), zzNullConn{}) })
	zzUnwindIn("", 0, false)
	zzAssert(len(rec.evs) <= 2, "one request produces a bounded number of events")
}
