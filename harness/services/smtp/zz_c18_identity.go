//go:build verif

package smtp

import (
	"bytes"
	"crypto/tls"
	"errors"
	"strconv"
)

// in-memory storage.Storage with a kill switch: the process "dies" right after the
// n-th write has become durable (the crash points between the writes of a first start)
type zzMem struct {
	m      map[string][]byte
	sets   int
	killAt int
}

type zzKilled struct{}

func (s *zzMem) Get(k string) ([]byte, error) {
	v, ok := s.m[k]
	if !ok {
		return nil, errors.New("key not found")
	}
	return v, nil
}

func (s *zzMem) Set(k string, d []byte) error {
	cp := make([]byte, len(d))
	copy(cp, d)
	s.m[k] = cp
	s.sets++
	if s.sets == s.killAt {
		panic(zzKilled{})
	}
	return nil
}

// models of the generators (the native twin uses the real RSA/x509 code)
var zzKeyCounter int

func zzGenKey() ([]byte, error) {
	zzKeyCounter++
	return []byte("KEY" + strconv.Itoa(zzKeyCounter)), nil
}
func zzGenCert(key []byte) ([]byte, error) { return append([]byte("CERT:"), key...), nil }
func zzKeyPair(cert, key []byte) (tls.Certificate, error) {
	if !bytes.Equal(cert, append([]byte("CERT:"), key...)) {
		return tls.Certificate{}, errors.New("tls: private key does not match public key")
	}
	return tls.Certificate{Certificate: [][]byte{cert}}, nil
}

// C18/identity: the TLS identity of the service across a first start that is killed
// between any two store writes, followed by two uninterrupted starts.
func zzH_C18_identity() {
	zzKeyCounter = 0
	st := &zzMem{m: map[string][]byte{}}
	start := func(killAt int) (c *tls.Certificate, err error, killed bool) {
		st.sets, st.killAt = 0, killAt
		defer func() {
			if r := recover(); r != nil {
				if _, ok := r.(zzKilled); ok {
					killed = true
					return
				}
				panic(r)
			}
		}()
		s := &smtpStorage{st}
		c, err = s.Certificate()
		return
	}
	killAt := zzLen(0, 2)
	c1, err1, killed := start(killAt)
	if killAt == 0 {
		zzAssert(!killed && err1 == nil && c1 != nil, "an uninterrupted first start yields an identity")
	}
	c2, err2, _ := start(0)
	zzAssert(err2 == nil && c2 != nil && len(c2.Certificate) > 0, "a start after a first start that was killed between two writes comes up with a usable identity")
	c3, err3, _ := start(0)
	zzAssert(err3 == nil && c3 != nil && len(c3.Certificate) > 0, "and so does every later start")
	if err2 == nil && err3 == nil && c2 != nil && c3 != nil && len(c2.Certificate) > 0 && len(c3.Certificate) > 0 {
		zzAssert(bytes.Equal(c2.Certificate[0], c3.Certificate[0]), "the certificate presented stays the same across restarts")
		if killAt == 0 && c1 != nil && len(c1.Certificate) > 0 {
			zzAssert(bytes.Equal(c1.Certificate[0], c2.Certificate[0]), "the certificate of the first start is kept")
		}
	}
}
