//go:build verif

package server

import (
	"net"

	"github.com/honeytrap/honeytrap/event"
	"github.com/honeytrap/honeytrap/listener"
	"github.com/honeytrap/honeytrap/services"
	"github.com/miekg/dns"
)

type zzEvCh struct{ evs []event.Event }

func (c *zzEvCh) Send(e event.Event) { c.evs = append(c.evs, e) }

// contract model of (*dns.Msg).Unpack: any datagram of at least 12 bytes is a message
// whose id is its first two bytes (the wire parser itself is outside the claim)
func zzStubDNSUnpack(m *dns.Msg, b []byte) error {
	if len(b) < 12 {
		return dns.ErrShortRead
	}
	m.Id = uint16(b[0])<<8 | uint16(b[1])
	return nil
}

// C04/udp-dispatch: one datagram, delivered exactly as the socket listener delivers it
// (a *listener.DummyUDPConn) and dispatched by the real handle, is decoded and reported
// by the configured UDP service on its own: exactly one event carrying the datagram.
func zzH_C04_udpdispatch() {
	which := zzLen(0, 1)
	ch := &zzEvCh{}
	var svc services.Servicer
	if which == 0 {
		svc = services.Echo(services.WithChannel(ch))
	} else {
		svc = services.DNS(services.WithChannel(ch))
	}
	laddr := &net.UDPAddr{IP: net.IPv4(10, 0, 0, 1), Port: 53}
	hc := &Honeytrap{ports: map[net.Addr][]*ServiceMap{laddr: {{Service: svc, Name: "svc", Type: "svc"}}}}
	n := zzLen(12, zzParam("N", 14))
	payload := zzBytes(n)
	orig := make([]byte, n)
	copy(orig, payload)
	var replies [][]byte
	conn := &listener.DummyUDPConn{Buffer: payload, Laddr: laddr, Raddr: &net.UDPAddr{IP: net.IPv4(10, 9, 9, 9), Port: 40000},
		Fn: func(b []byte, addr *net.UDPAddr) (int, error) {
			cp := make([]byte, len(b))
			copy(cp, b)
			replies = append(replies, cp)
			return len(b), nil
		}}
	hc.handle(conn)
	zzAssert(len(ch.evs) == 1, "a datagram sent to a configured UDP service is reported by exactly one event")
	if len(ch.evs) == 1 {
		m := event.ToMap(ch.evs[0])
		zzAssert(m["source-ip"] == "10.9.9.9", "the event names the sender of the datagram")
		if which == 0 {
			p, _ := m["payload"].(string)
			zzAssert(p == string(orig), "the echo event carries the datagram's payload")
		} else {
			zzAssert(m["dns.id"] != nil, "the dns event carries the decoded message id")
		}
	}
	if which == 0 {
		zzAssert(len(replies) == 1 && string(replies[0]) == string(orig), "echo answers the datagram once with its payload")
	}
}
