//go:build verif

package ftp

import (
	"context"
	"errors"
	"io"
	"net"

	"github.com/honeytrap/honeytrap/event"
)

type zzCutF struct {
	zzSConn
	cut  int
	cut2 int // second cut (0: none); thorough tier
	// the client may be gone by the time replies are written: writes fail after failAfter
	// successful ones (-1: never)
	failAfter, writes int
}

func (c *zzCutF) Write(b []byte) (int, error) {
	if c.failAfter >= 0 && c.writes >= c.failAfter {
		return 0, errors.New("write: broken pipe")
	}
	c.writes++
	return c.zzSConn.Write(b)
}

func (c *zzCutF) Read(b []byte) (int, error) {
	if c.pos >= len(c.data) {
		return 0, io.EOF
	}
	end := len(c.data)
	if c.pos < c.cut {
		end = c.cut
	} else if c.cut2 > c.cut && c.pos < c.cut2 {
		end = c.cut2
	}
	n := copy(b, c.data[c.pos:end])
	c.pos += n
	return n, nil
}

// C04/ftp: two commands (the first with a symbolic argument) in one stream split at any
// position, through the real service Handle (control loop + event pump); the client may
// stop reading replies (writes fail from the start or after the greeting).
func zzH_C04_ftp() {
	arg := zzString(2)
	for j := 0; j < 2; j++ {
		zzAssume(zzAnd(arg[j] > 0x20, arg[j] < 0x7f))
	}
	c1 := "USER " + arg
	c2 := []string{"NOOP", "SYST", "PASS x"}[zzLen(0, 2)]
	stream := []byte(c1 + "\r\n" + c2 + "\r\n")
	cut := zzLen(1, len(stream))
	cut2 := 0
	if zzParam("CUTS", 1) == 2 && cut < len(stream) {
		cut2 = zzLen(cut, len(stream)) // cut2 == cut: no second cut
	}
	rec := &zzFRec{}
	s := &ftpService{server: NewServer(&ServerOpts{Auth: &User{users: map[string]string{}}}), driver: &zzDriver{}, recv: make(chan string)}
	s.SetChannel(rec)
	failAfter := []int{-1, 0, 1}[zzLen(0, 2)]
	conn := &zzCutF{zzSConn: zzSConn{data: stream, err: io.EOF}, cut: cut, cut2: cut2, failAfter: failAfter}
	s.Handle(context.Background(), conn)
	zzQuiesce()
	var got []string
	for _, e := range rec.evs {
		if c, ok := event.ToMap(e)["ftp.command"].(string); ok {
			got = append(got, c)
		}
	}
	zzAssert(len(got) == 2, "each complete command produces exactly one event, however the stream is segmented")
	if len(got) == 2 {
		zzAssert(got[0] == c1 && got[1] == c2, "the events carry the commands sent, in order")
	}
}

var _ net.Conn = &zzCutF{}
