//go:build verif

package ftp

import (
	"context"
	"io"
	"net"

	"github.com/honeytrap/honeytrap/event"
)

// zzGFConn: a control connection whose command chunks become readable one gate at a time.
type zzGFConn struct {
	zzAConn
	chunks [][]byte
	gates  []chan struct{}
	cur    int
}

func (c *zzGFConn) Read(b []byte) (int, error) {
	for c.pos >= len(c.data) {
		if c.cur >= len(c.chunks) {
			return 0, io.EOF
		}
		k := c.cur
		<-c.gates[k]
		if c.cur == k {
			c.data, c.pos = c.chunks[k], 0
			c.cur++
		}
	}
	n := copy(b, c.data[c.pos:])
	c.pos += n
	return n, nil
}

func zzNewGF(ip byte, chunks ...string) *zzGFConn {
	c := &zzGFConn{}
	c.remote = &net.TCPAddr{IP: net.IPv4(10, 9, 9, ip), Port: 40000 + int(ip)}
	c.err = io.EOF
	for _, ch := range chunks {
		c.chunks = append(c.chunks, []byte(ch))
		c.gates = append(c.gates, make(chan struct{}))
	}
	return c
}

func zzCount(hay []byte, needle string) int {
	n := 0
	for i := 0; i+len(needle) <= len(hay); i++ {
		if string(hay[i:i+len(needle)]) == needle {
			n++
		}
	}
	return n
}

// C03/ftp-overlap: a history of 0..2 finished sessions (each ended by QUIT or by the client
// going away), then two sessions open at the same time, each sending USER with its own
// name. Each client receives its own greeting and its own reply - nothing of the other's -
// and every command event carries the address of the session that sent it.
func zzH_C03_ftpoverlap() {
	rec := &zzFRec{}
	s := &ftpService{server: NewServer(&ServerOpts{Auth: &User{users: map[string]string{}}}), driver: &zzDriver{}, recv: make(chan string)}
	s.SetChannel(rec)
	hist := zzLen(0, zzParam("H", 2))
	for i := 0; i < hist; i++ {
		stream := "NOOP\r\n"
		if zzBool() {
			stream = "QUIT\r\n"
		}
		c := &zzAConn{zzSConn: zzSConn{data: []byte(stream), err: io.EOF}, remote: &net.TCPAddr{IP: net.IPv4(10, 9, 9, byte(100+i)), Port: 41000}}
		s.Handle(context.Background(), c)
		zzQuiesce()
	}
	rec.evs = nil
	b := zzNewGF(2, "USER bob\r\n", "")
	c := zzNewGF(3, "PASS x\r\n", "")
	doneB, doneC := false, false
	go func() { s.Handle(context.Background(), b); doneB = true }()
	zzQuiesce()
	go func() { s.Handle(context.Background(), c); doneC = true }()
	zzQuiesce()
	order := zzBool()
	if order {
		close(b.gates[0])
		zzQuiesce()
		close(c.gates[0])
	} else {
		close(c.gates[0])
		zzQuiesce()
		close(b.gates[0])
	}
	zzQuiesce()
	close(b.gates[1])
	close(c.gates[1])
	zzQuiesce()
	zzAssert(doneB && doneC, "both handlers return once their clients are gone")
	zzAssert(zzCount(b.out, "220 ") == 1 && zzCount(c.out, "220 ") == 1, "each client receives exactly one greeting")
	zzAssert(zzCount(b.out, "331 ") == 1 && zzCount(c.out, "331 ") == 0, "the reply to USER goes to the client that sent USER, once")
	zzAssert(zzCount(c.out, "\r\n") == 2, "the other client gets its greeting and one answer to its own command")
	for _, ev := range rec.evs {
		m := event.ToMap(ev)
		cmd, _ := m["ftp.command"].(string)
		src, _ := m["source-ip"].(string)
		if cmd == "USER bob" {
			zzAssert(src == "10.9.9.2", "a command event carries the address of the connection that sent the command")
		}
		if cmd == "PASS x" {
			zzAssert(src == "10.9.9.3", "a command event carries the address of the connection that sent the command")
		}
	}
}
