//go:build verif

package server

import (
	"os"
	"os/user"
	"path/filepath"
	"time"

	"github.com/rs/xid"
)

// ---- in-memory model of the data directory (token file) ----
var zzTokFiles map[string][]byte

type zzTokInfo struct{}

func (zzTokInfo) Name() string       { return "token" }
func (zzTokInfo) Size() int64        { return 0 }
func (zzTokInfo) Mode() os.FileMode  { return 0o600 }
func (zzTokInfo) ModTime() time.Time { return time.Time{} }
func (zzTokInfo) IsDir() bool        { return false }
func (zzTokInfo) Sys() interface{}   { return nil }

func zzTokStat(name string) (os.FileInfo, error) {
	if _, ok := zzTokFiles[name]; ok {
		return zzTokInfo{}, nil
	}
	return nil, os.ErrNotExist
}
func zzTokReadFile(name string) ([]byte, error) {
	if b, ok := zzTokFiles[name]; ok {
		cp := make([]byte, len(b))
		copy(cp, b)
		return cp, nil
	}
	return nil, os.ErrNotExist
}
func zzTokWriteFile(name string, data []byte, perm os.FileMode) error {
	cp := make([]byte, len(data))
	copy(cp, data)
	zzTokFiles[name] = cp
	return nil
}
func zzTokRename(a, b string) error {
	d, ok := zzTokFiles[a]
	if !ok {
		return os.ErrNotExist
	}
	zzTokFiles[b] = d
	delete(zzTokFiles, a)
	return nil
}
func zzTokRemove(a string) error { delete(zzTokFiles, a); return nil }

// fresh identifiers: 12 arbitrary bytes (the real generator mixes time, host, pid and a counter)
var zzXidCounter byte

func zzStubXidNew() xid.ID {
	zzXidCounter++
	id := xid.ID{0x5b, 0x10, 0x20, 0x30, 0x40, 0x50, 0x60, 0x70, 0x80, 0x90, 0xa0, zzXidCounter}
	if zzParam("SYM", 0) == 1 {
		id[0], id[11] = zzU8(), zzU8() // first and last character of the text form vary
	}
	return id
}

// a freshly generated identity is a complete identifier; an identity adopted from the
// token file is whatever non-empty text the file holds (operators may install their own)
func zzWellFormedToken(s string, adopted bool) bool {
	if adopted {
		return len(s) > 0
	}
	if len(s) != 20 {
		return false
	}
	_, err := xid.FromString(s)
	return err == nil
}

// C18/token: the token file is in any state an interrupted first start can leave
// (absent, empty, any proper prefix of the identifier being written); then the sensor
// is started twice. The identity must be well-formed and non-empty after the first of
// them and identical after the second.
func zzH_C18_token() {
	dir := "/var/lib/honeytrap"
	zzXidCounter = 0
	if zzSymbolic() {
		zzTokFiles = map[string][]byte{}
	} else {
		tmp, _ := os.MkdirTemp("", "zzc18")
		defer os.RemoveAll(tmp)
		dir = tmp
	}
	tokPath := filepath.Join(dir, "token")
	// crash state: what an interrupted earlier start left behind
	state := zzLen(0, 21) // 0: absent; k>=1: the first k-1 characters of some identifier
	if state >= 1 {
		old := xid.ID{0x4d, 0x88, 0xe1, 0x5b, 0x60, 0xf4, 0x86, 0xe4, 0x28, 0x41, 0x2d, 0xc9}
		if zzParam("SYM", 0) == 1 {
			old[0] = zzU8()
		}
		prefix := []byte(old.String())[:state-1]
		if zzSymbolic() {
			zzTokFiles[tokPath] = prefix
		} else {
			os.WriteFile(tokPath, prefix, 0o600)
		}
	}
	start := func() string {
		h := &Honeytrap{dataDir: dir}
		err := WithToken()(h)
		zzAssert(err == nil, "start-up succeeds whatever the interrupted start left behind")
		return h.token
	}
	t1 := start()
	zzAssert(zzWellFormedToken(t1, state >= 2), "the identity after a start is a well-formed, non-empty identifier")
	t2 := start()
	zzAssert(t2 == t1, "the identity is kept on the next start")
	t3 := start()
	zzAssert(t3 == t1, "the identity is kept on every later start")
	var onDisk []byte
	if zzSymbolic() {
		onDisk = zzTokFiles[tokPath]
	} else {
		onDisk, _ = os.ReadFile(tokPath)
	}
	zzAssert(string(onDisk) == t1, "the token file holds the identity")
}

// ---- C18/token-datadir: the data directory as the operator spells it ----
var zzTokDirs map[string]bool

func zzStubUserCurrent() (*user.User, error) { return &user.User{HomeDir: "/home/ht"}, nil }
func zzStubGetwd() (string, error)           { return "/opt/ht", nil }
func zzStubSetDataDir(p string)              {}
func zzTokMkdir(name string, perm os.FileMode) error {
	zzTokDirs[name] = true
	return nil
}
func zzTokStatDir(name string) (os.FileInfo, error) {
	if zzTokDirs[name] {
		return zzTokInfo{}, nil
	}
	return zzTokStat(name)
}

// The data directory is given in any of the spellings the command line accepts (absolute,
// home-relative with a leading ~, relative to the working directory; existing or not) and
// the sensor is started three times with the same spelling. The identity of the first start
// is kept by the later ones and the token file lies in the expanded directory.
func zzH_C18_datadir() {
	zzXidCounter = 0
	home, cwd := "/home/ht", "/opt/ht"
	var cleanup []string
	if zzSymbolic() {
		zzTokFiles = map[string][]byte{}
		zzTokDirs = map[string]bool{}
	} else {
		u, err := user.Current()
		zzAssume(err == nil)
		home = u.HomeDir
		tmp, _ := os.MkdirTemp("", "zzc18d")
		defer os.RemoveAll(tmp)
		os.Chdir(tmp)
		cwd, _ = os.Getwd()
		defer func() {
			for _, d := range cleanup {
				os.RemoveAll(d)
			}
		}()
	}
	spell, want := "", ""
	switch zzLen(0, 3) {
	case 0:
		spell, want = filepath.Join(cwd, "abs-data"), filepath.Join(cwd, "abs-data")
	case 1:
		spell, want = "~/.zzc18-verif-data", filepath.Join(home, ".zzc18-verif-data")
		cleanup = append(cleanup, want)
	case 2:
		spell, want = "rel-data", filepath.Join(cwd, "rel-data")
	case 3:
		spell, want = "./rel/../rel-data/", filepath.Join(cwd, "rel-data")
		if !zzSymbolic() {
			os.Mkdir(filepath.Join(cwd, "rel"), 0o755)
		}
	}
	if zzBool() { // the directory may exist already
		if zzSymbolic() {
			zzTokDirs[want] = true
		} else {
			os.MkdirAll(want, 0o755)
		}
	}
	start := func() string {
		fn, err := WithDataDir(spell)
		zzAssert(err == nil, "the data directory option is accepted")
		if err != nil {
			return ""
		}
		h := &Honeytrap{}
		fn(h)
		err = WithToken()(h)
		zzAssert(err == nil, "start-up succeeds")
		return h.token
	}
	t1 := start()
	t2 := start()
	t3 := start()
	zzAssert(zzWellFormedToken(t1, false), "the first start generates a well-formed identity")
	zzAssert(t2 == t1 && t3 == t1, "the identity is kept on later starts, however the data directory is spelled")
	var onDisk []byte
	if zzSymbolic() {
		onDisk = zzTokFiles[filepath.Join(want, "token")]
	} else {
		onDisk, _ = os.ReadFile(filepath.Join(want, "token"))
	}
	zzAssert(string(onDisk) == t1, "the token file lies in the expanded data directory and holds the identity")
}
