//go:build verif

package ipp

// C17/ipp-roundtrip: a request built with the package's own encoder types (operation id,
// request id, one operation-attributes group with charset, language, printer-uri, user name
// and job name, optionally a job-attributes group with an integer and a boolean, document
// data) decodes to what was encoded; strings, integers and the document are symbolic.
func zzH_C17_ipp() {
	op := []int16{opPrintJob, opValidateJob, opGetPrinterAttrib, opGetJobAttrib, opCreateJob}[zzLen(0, 4)]
	reqID := int32(zzU32())
	str := func(n int) string {
		s := zzString(n)
		for i := 0; i < n; i++ {
			zzAssume(zzAnd(s[i] >= 0x20, s[i] < 0x7f))
		}
		return s
	}
	uri := "ipp://h/" + str(zzLen(0, zzParam("S", 2)))
	user := str(zzLen(1, zzParam("S", 2)))
	job := str(zzLen(0, zzParam("S", 2)))
	copies, prio, mv1, mv2 := int32(zzU32()), int32(zzU32()), int32(zzU32()), int32(zzU32())
	flag := zzBool()
	doc := zzBytes(zzLen(0, zzParam("D", 4)))
	docCopy := append([]byte{}, doc...)

	m := &ippMsg{versionMajor: 2, versionMinor: 0, statusCode: op, requestID: reqID}
	g := &attribGroup{tag: opAttribTag, val: []ValueType{
		&valStr{valCharSet, "attributes-charset", []string{"utf-8"}},
		&valStr{naturelLang, "attributes-natural-language", []string{"en"}},
		&valStr{valURI, "printer-uri", []string{uri}},
		&valStr{nameWithoutLang, "requesting-user-name", []string{user}},
		&valStr{nameWithoutLang, "job-name", []string{job}},
	}}
	m.attributes = append(m.attributes, g)
	withJob := zzBool()
	if withJob {
		m.attributes = append(m.attributes, &attribGroup{tag: jobAttribTag, val: []ValueType{
			&valInt{valInteger, "copies", []int32{copies}},
			&valInt{valInteger, "job-priority", []int32{prio}}, // same value tag directly after
			&valInt{valInteger, "m", []int32{mv1, mv2}},        // a two-valued attribute
			&valBool{valBoolean, "b", []bool{flag}},
		}})
	}
	m.attributes = append(m.attributes, &attribGroup{tag: endAttribTag})
	raw := append(m.encode().Bytes(), doc...)

	got := &ippMsg{}
	err := got.decode(raw)
	zzAssert(err == nil, "a request built from the supported attribute types decodes without error")
	zzAssert(got.statusCode == op && got.requestID == reqID && got.versionMajor == 2, "operation, request id and version decode to what was encoded")
	wantGroups := 2
	if withJob {
		wantGroups = 3
	}
	zzAssert(len(got.attributes) == wantGroups, "the attribute groups decode to what was encoded")
	if len(got.attributes) != wantGroups {
		return
	}
	vals := got.attributes[0].val
	zzAssert(len(vals) == 5, "the operation attributes decode to what was encoded")
	if len(vals) == 5 {
		for i, want := range []string{"utf-8", "en", uri, user, job} {
			vs, ok := vals[i].(*valStr)
			zzAssert(ok && len(vs.val) == 1 && vs.val[0] == want, "string attributes decode to the text encoded")
		}
	}
	if withJob {
		jv := got.attributes[1].val
		zzAssert(len(jv) == 4, "the job attributes decode to what was encoded")
		if len(jv) == 4 {
			vi, ok := jv[0].(*valInt)
			zzAssert(ok && len(vi.val) == 1 && vi.val[0] == copies, "an integer attribute decodes to the number encoded")
			vp, ok := jv[1].(*valInt)
			zzAssert(ok && vp.name == "job-priority" && len(vp.val) == 1 && vp.val[0] == prio, "an integer attribute that directly follows another one decodes to its own name and number")
			vm, ok := jv[2].(*valInt)
			zzAssert(ok && len(vm.val) == 2 && vm.val[0] == mv1 && vm.val[1] == mv2, "a multi-valued integer attribute decodes to all its values")
			vb, ok := jv[3].(*valBool)
			zzAssert(ok && len(vb.val) == 1 && vb.val[0] == flag, "a boolean attribute decodes to the value encoded")
		}
	}
	same := len(got.data) == len(docCopy)
	for i := 0; same && i < len(docCopy); i++ {
		same = got.data[i] == docCopy[i]
	}
	zzAssert(same, "the document data decodes to what was encoded")
}
