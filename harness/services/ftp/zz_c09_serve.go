//go:build verif

package ftp

import (
	"bufio"
	"errors"
	"io"
	"net"
	"time"
)

type zzSConn struct {
	data   []byte
	pos    int
	err    error
	closed bool
	out    []byte
}

func (c *zzSConn) Read(b []byte) (int, error) {
	if c.pos >= len(c.data) {
		return 0, c.err
	}
	n := copy(b, c.data[c.pos:])
	c.pos += n
	return n, nil
}
func (c *zzSConn) Write(b []byte) (int, error)        { c.out = append(c.out, b...); return len(b), nil }
func (c *zzSConn) Close() error                       { c.closed = true; return nil }
func (c *zzSConn) LocalAddr() net.Addr                { return &net.TCPAddr{IP: net.IPv4(10, 0, 0, 1), Port: 21} }
func (c *zzSConn) RemoteAddr() net.Addr               { return &net.TCPAddr{IP: net.IPv4(10, 9, 9, 9), Port: 40000} }
func (c *zzSConn) SetDeadline(t time.Time) error      { return nil }
func (c *zzSConn) SetReadDeadline(t time.Time) error  { return nil }
func (c *zzSConn) SetWriteDeadline(t time.Time) error { return nil }

type zzTimeout struct{}

func (zzTimeout) Error() string   { return "i/o timeout" }
func (zzTimeout) Timeout() bool   { return true }
func (zzTimeout) Temporary() bool { return true }

// C09/ftp-serve: the control-connection loop after the peer has gone: the client sends
// 0..2 complete commands and possibly part of one, then the connection ends in an orderly
// close (EOF), an idle timeout or a reset. Serve must return and close the connection.
func zzH_C09_ftpserve() {
	lines := []string{"NOOP\r\n", "USER x\r\n", "SYST\r\n", "QUIT\r\n"}
	var data []byte
	k := zzLen(0, 2)
	for i := 0; i < k; i++ {
		data = append(data, lines[zzLen(0, len(lines)-1)]...)
	}
	if zzLen(0, 1) == 1 {
		data = append(data, "NO"...) // mid-command
	}
	var endErr error
	switch zzLen(0, 2) {
	case 0:
		endErr = io.EOF
	case 1:
		endErr = zzTimeout{}
	case 2:
		endErr = errors.New("read: connection reset by peer")
	}
	nc := &zzSConn{data: data, err: endErr}
	srv := NewServer(&ServerOpts{Auth: &User{users: map[string]string{}}})
	conn := &Conn{namePrefix: "/", conn: nc, controlReader: bufio.NewReader(nc), controlWriter: bufio.NewWriter(nc),
		driver: &zzDriver{}, auth: srv.Auth, server: srv, sessionid: "zz", rcv: make(chan string, 64)}
	// a data connection opened earlier in the session (PORT/PASV) and not consumed by a transfer
	var ds *zzDSock
	if zzLen(0, 1) == 1 {
		ds = &zzDSock{}
		conn.dataConn = ds
	}
	zzUnwind(k+4, true)
	conn.Serve()
	zzUnwind(0, false)
	zzAssert(nc.closed, "the control connection is closed when the peer is gone")
	zzAssert(ds == nil || ds.closed, "a pending data connection of the session is closed when the handler returns")
}

type zzDSock struct{ closed bool }

func (d *zzDSock) Host() string                { return "10.9.9.9" }
func (d *zzDSock) Port() int                   { return 40001 }
func (d *zzDSock) Read(p []byte) (int, error)  { return 0, io.EOF }
func (d *zzDSock) Write(p []byte) (int, error) { return len(p), nil }
func (d *zzDSock) Close() error                { d.closed = true; return nil }
