//go:build verif

package files

import (
	"net"
	"strconv"
	"strings"
)

// engine self-test: concrete library semantics executed by the interpreter must
// match native Go (checked by assertions on constants).
func zzH_ST_lib() {
	ip := net.IPv4(10, 0, 0, 2)
	zzAssertMsg(ip.String() == "10.0.0.2", "net.IP.String", ip.String())
	parts := strings.Split("10.0.0.2", ".")
	zzAssertMsg(len(parts) == 4, "strings.Split", strconv.Itoa(len(parts)))
	n, err := strconv.Atoi("123")
	zzAssert(n == 123 && err == nil, "strconv.Atoi")
	zzAssert(strings.ToUpper("abC") == "ABC", "ToUpper")
	zzAssert(strings.TrimSpace("  a b \r\n") == "a b", "TrimSpace")
	zzAssert(strconv.Itoa(-4096) == "-4096", "Itoa")
}
