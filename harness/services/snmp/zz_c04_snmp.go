//go:build verif

package snmp

import (
	"context"
	"errors"
	"net"

	"github.com/Logicalis/asn1"
	"github.com/honeytrap/honeytrap/event"
	"github.com/honeytrap/honeytrap/listener"
	"golang.org/x/time/rate"
)

type zzSRec struct{ evs []event.Event }

func (r *zzSRec) Send(e event.Event) { r.evs = append(r.evs, e) }

// ---- contract models of the reflection-based ASN.1 codec ----
// Decode: the next message of the harness' queue (or a decoding error); Encode: some bytes.
var (
	zzMsgs   []*Message // nil entry: the datagram does not decode
	zzMsgPos int
)

func zzStubAsn1Context() *asn1.Context { return &asn1.Context{} }

func zzStubDecode(ctx *asn1.Context, data []byte, obj interface{}) ([]byte, error) {
	m := zzMsgs[zzMsgPos]
	zzMsgPos++
	if m == nil {
		return nil, errors.New("asn1: syntax error")
	}
	*(obj.(*Message)) = *m
	return nil, nil
}

func zzStubEncode(ctx *asn1.Context, obj interface{}) ([]byte, error) {
	return []byte{0x30, 0x03, 0x02, 0x01, 0x00}, nil
}

// exact integer model of (*rate.Limiter).Allow within one interval: burst 4
var (
	zzLeft   map[*rate.Limiter]int
	zzGrants int
)

func zzStubAllow(l *rate.Limiter) bool {
	if zzLeft == nil {
		zzLeft = map[*rate.Limiter]int{}
	}
	r, seen := zzLeft[l]
	if !seen {
		r = l.Burst()
	}
	if r <= 0 {
		zzLeft[l] = 0
		return false
	}
	zzLeft[l] = r - 1
	zzGrants++
	return true
}

// C04+C10/snmp-datagrams: K datagrams from one source (ports symbolic) to one service
// instance, each either undecodable, of another SNMP version, or a v1 get / get-next / set
// request or another PDU. Every reportable datagram yields exactly one event, however many
// the source has sent before (the rate limit suppresses replies, not reports); no reply
// without a grant, at most four replies.
func zzH_C04_snmp() {
	zzLeft, zzGrants = nil, 0
	rec := &zzSRec{}
	s := SNMP().(*snmpService)
	s.SetChannel(rec)
	k := zzParam("K", 6)
	zzMsgs, zzMsgPos = nil, 0
	want, replies := 0, 0
	// the first K-2 datagrams are all of one kind (chosen once) with fixed fields; the last two
	// are free in kind, community byte, request id and OID arc
	prefixKind := zzLen(0, 5)
	for i := 0; i < k; i++ {
		var m *Message
		kind := prefixKind
		community := "cx"
		pdu := Pdu{Identifier: 7, Variables: []Variable{{Name: asn1.Oid{1, 3, 6, 1, 2}}}}
		if i >= k-2 {
			kind = zzLen(0, 5)
			community = "c" + zzString(1)
			pdu = Pdu{Identifier: int(zzU16()), Variables: []Variable{{Name: asn1.Oid{1, 3, 6, 1, uint(zzU8())}}}}
		}
		switch kind {
		case 0: // does not decode
		case 1:
			m = &Message{Version: 1 + int(zzU8()), Community: community}
			want++
		case 2:
			m = &Message{Version: 0, Community: community, Pdu: GetRequestPdu(pdu)}
			want++
		case 3:
			m = &Message{Version: 0, Community: community, Pdu: GetNextRequestPdu(pdu)}
			want++
		case 4:
			m = &Message{Version: 0, Community: community, Pdu: SetRequestPdu(pdu)}
			want++
		case 5:
			m = &Message{Version: 0, Community: community, Pdu: GetResponsePdu(pdu)}
		}
		zzMsgs = append(zzMsgs, m)
		before := len(rec.evs)
		conn := &listener.DummyUDPConn{Buffer: []byte{0x30, 0x03, 0x02, 0x01, 0x00}, Laddr: &net.UDPAddr{IP: net.IPv4(10, 0, 0, 1), Port: 161},
			Raddr: &net.UDPAddr{IP: net.IPv4(10, 9, 9, 9), Port: int(zzU16())},
			Fn: func(b []byte, addr *net.UDPAddr) (int, error) {
				replies++
				zzAssert(replies <= zzGrants, "every response datagram is preceded by its own grant from the rate limiter")
				return len(b), nil
			}}
		zzDidPanic(func() { s.Handle(context.Background(), conn) })
		exp := 0
		if kind >= 1 && kind <= 4 {
			exp = 1
		}
		zzAssert(len(rec.evs)-before == exp, "a reportable datagram yields exactly one event whatever the source sent before; others none")
	}
	zzAssert(len(rec.evs) == want, "every reportable datagram of the sequence is reported exactly once")
	zzAssert(replies <= 4, "one source gets at most four replies within the limiter interval")
}
