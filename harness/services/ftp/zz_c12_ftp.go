//go:build verif

package ftp

import (
	"bufio"
	"io"
	"net"
	"os"
	"sort"
	"time"
)

type zzFConn struct{ out []byte }

func (c *zzFConn) Read(b []byte) (int, error)         { return 0, io.EOF }
func (c *zzFConn) Write(b []byte) (int, error)        { c.out = append(c.out, b...); return len(b), nil }
func (c *zzFConn) Close() error                       { return nil }
func (c *zzFConn) LocalAddr() net.Addr                { return &net.TCPAddr{IP: net.IPv4(10, 0, 0, 1), Port: 21} }
func (c *zzFConn) RemoteAddr() net.Addr               { return &net.TCPAddr{IP: net.IPv4(10, 9, 9, 9), Port: 40000} }
func (c *zzFConn) SetDeadline(t time.Time) error      { return nil }
func (c *zzFConn) SetReadDeadline(t time.Time) error  { return nil }
func (c *zzFConn) SetWriteDeadline(t time.Time) error { return nil }

// recording driver: any file-system operation a command performs is counted
type zzDriver struct{ calls int }

func (d *zzDriver) Init()                            {}
func (d *zzDriver) Stat(string) (os.FileInfo, error) { d.calls++; return nil, os.ErrNotExist }
func (d *zzDriver) ChangeDir(string) error           { d.calls++; return nil }
func (d *zzDriver) ListDir(string) []os.FileInfo     { d.calls++; return nil }
func (d *zzDriver) DeleteDir(string) error           { d.calls++; return nil }
func (d *zzDriver) DeleteFile(string) error          { d.calls++; return nil }
func (d *zzDriver) Rename(string, string) error      { d.calls++; return nil }
func (d *zzDriver) MakeDir(string) error             { d.calls++; return nil }
func (d *zzDriver) GetFile(string, int64) (int64, io.ReadCloser, error) {
	d.calls++
	return 0, nil, os.ErrNotExist
}
func (d *zzDriver) PutFile(string, io.Reader, bool) (int64, error) {
	d.calls++
	return 0, os.ErrPermission
}
func (d *zzDriver) CurDir() string { d.calls++; return "/" }

func zzVerbs() []string {
	var v []string
	for k := range commands {
		v = append(v, k)
	}
	sort.Strings(v)
	return v
}

func zzLastCode(out []byte, from int) string {
	s := string(out[from:])
	if len(s) < 3 {
		return ""
	}
	return s[:3]
}

var zzFUsers = []map[string]string{{}, {"root": "root"}, {"root": "root", "admin": "123456"}, {"guest": ""}}
var zzFGatedAfter = []string{"CWD", "MKD", "DELE", "RMD", "CDUP"}

// C12/ftp: the real receiveLine / command table on one control connection: a probe of
// an arbitrary verb before login, then 1..A USER/PASS attempts (name and password
// symbolic), each followed by a file/directory command.
func zzH_C12_ftp() {
	users := zzFUsers[zzLen(0, len(zzFUsers)-1)]
	drv := &zzDriver{}
	nc := &zzFConn{}
	srv := NewServer(&ServerOpts{Auth: &User{users: users}})
	conn := &Conn{namePrefix: "/", conn: nc, controlReader: bufio.NewReader(nc), controlWriter: bufio.NewWriter(nc),
		driver: drv, auth: srv.Auth, server: srv, sessionid: "zz", rcv: make(chan string, 64)}

	verbs := zzVerbs()
	if zzParam("PROBE", 1) == 0 {
		verbs = []string{"LIST"}
	}
	// 1. before login: any verb of the command table
	verb := verbs[zzLen(0, len(verbs)-1)]
	zzAssume(verb != "AUTH" && verb != "QUIT") // TLS upgrade / close are not file commands
	mark := len(nc.out)
	conn.receiveLine(verb + " x\r\n")
	zzAssert(drv.calls == 0, "no file or directory operation is performed before a login has succeeded")
	zzAssert(conn.dataConn == nil, "no data socket is opened before a login has succeeded")
	if commands[verb].RequireAuth() {
		zzAssert(zzLastCode(nc.out, mark) == "530", "commands that require authentication are refused (530) before login")
	}

	// 2. attempts
	logged := false
	pending := "" // the user name the server holds for the next PASS
	a := zzLen(zzParam("AMIN", 1), zzParam("A", 2))
	for i := 0; i < a; i++ {
		name := zzString(zzLen(0, 1) * 4)
		pw := zzString([]int{0, 4, 6}[zzLen(0, 2)])
		for j := 0; j < len(name); j++ {
			zzAssume(zzAnd(name[j] > 0x20, name[j] < 0x7f))
		}
		for j := 0; j < len(pw); j++ {
			zzAssume(zzAnd(pw[j] > 0x20, pw[j] < 0x7f))
		}
		if len(name) > 0 {
			pending = name
			conn.receiveLine("USER " + name + "\r\n")
		} else {
			// USER requires a parameter: without one the pending user stays empty
			conn.receiveLine("USER\r\n")
		}
		for len(conn.rcv) > 0 {
			<-conn.rcv
		}
		mark = len(nc.out)
		conn.receiveLine("PASS " + pw + "\r\n")
		want := false
		if len(pw) > 0 { // PASS requires a parameter
			stored, ok := users[pending]
			want = ok && stored == pw
		}
		code := zzLastCode(nc.out, mark)
		zzAssert((code == "230") == want, "PASS answers 230 exactly when user and password are a configured pair")
		if len(pw) > 0 {
			zzAssert(len(conn.rcv) == 1, "the attempt is handed to the event pump")
			if len(conn.rcv) == 1 {
				line := <-conn.rcv
				zzAssert(line == "PASS "+pw+"\r\n", "the logged line carries the password presented")
			}
		}
		if want {
			logged = true
			pending = ""
		}
		// 3. a file command after the attempt
		before := drv.calls
		mark = len(nc.out)
		v := zzFGatedAfter[zzLen(0, len(zzFGatedAfter)-1)]
		conn.receiveLine(v + " d\r\n")
		if !logged {
			zzAssert(drv.calls == before, "file commands stay refused after failed attempts")
			zzAssert(zzLastCode(nc.out, mark) == "530", "a file command before a successful login answers 530")
		} else {
			zzAssert(zzLastCode(nc.out, mark) != "530", "after a successful login file commands are no longer refused")
		}
	}
}

// C12/ftp-retries: a login with a configured pair succeeds whatever came before on the
// connection: F failed attempts (wrong password: any 4 printable bytes other than the
// configured one; or an unknown user), then the configured pair, then a file command.
func zzH_C12_ftpretries() {
	users := map[string]string{"root": "toor"}
	drv := &zzDriver{}
	nc := &zzFConn{}
	srv := NewServer(&ServerOpts{Auth: &User{users: users}})
	conn := &Conn{namePrefix: "/", conn: nc, controlReader: bufio.NewReader(nc), controlWriter: bufio.NewWriter(nc),
		driver: drv, auth: srv.Auth, server: srv, sessionid: "zz", rcv: make(chan string, 64)}
	f := zzLen(0, zzParam("F", 5))
	for i := 0; i < f; i++ {
		user := []string{"root", "bob"}[zzLen(0, 1)]
		pw := zzString(4)
		for j := 0; j < 4; j++ {
			zzAssume(zzAnd(pw[j] > 0x20, pw[j] < 0x7f))
		}
		zzAssume(pw != "toor")
		conn.receiveLine("USER " + user + "\r\n")
		mark := len(nc.out)
		conn.receiveLine("PASS " + pw + "\r\n")
		zzAssert(zzLastCode(nc.out, mark) != "230", "a wrong pair is refused")
		for len(conn.rcv) > 0 {
			<-conn.rcv
		}
	}
	conn.receiveLine("USER root\r\n")
	mark := len(nc.out)
	conn.receiveLine("PASS toor\r\n")
	zzAssert(zzLastCode(nc.out, mark) == "230", "the configured pair logs in, however many attempts failed before on the connection")
	before := drv.calls
	mark = len(nc.out)
	conn.receiveLine("MKD d\r\n")
	zzAssert(zzLastCode(nc.out, mark) != "530" && drv.calls > before, "after the login file commands are served")
}
