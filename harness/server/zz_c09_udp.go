//go:build verif

package server

import (
	"io"
	"net"
	"os"

	"github.com/honeytrap/honeytrap/event"
	"github.com/honeytrap/honeytrap/listener"
	"github.com/honeytrap/honeytrap/services"
)

type zzNullCh struct{ n int }

func (c *zzNullCh) Send(e event.Event) { c.n++ }

func zzStubStdoutWrite(f *os.File, b []byte) (int, error) { return len(b), nil }

// model of (*os.File).ReadFrom for standard output: consume the reader to its end
func zzStubFileReadFrom(f *os.File, r io.Reader) (int64, error) {
	var total int64
	buf := make([]byte, 32)
	for {
		n, err := r.Read(buf)
		total += int64(n)
		if err == io.EOF {
			return total, nil
		}
		if err != nil {
			return total, err
		}
	}
}

// C09/udp-datagram: one datagram of 0..N symbolic bytes dispatched by the real handle
// (which wraps the connection in its timeout wrapper) to echo or ntp. Once the datagram
// is consumed the handler must return: every loop over the connection makes progress,
// so no loop may run more than len+3 times (derived trip bound = the property).
func zzH_C09_udp() {
	which := zzLen(0, 1)
	var svc services.Servicer
	ch := &zzNullCh{}
	if which == 0 {
		svc = services.Echo(services.WithChannel(ch))
	} else {
		svc = services.NTP(services.WithChannel(ch))
	}
	laddr := &net.UDPAddr{IP: net.IPv4(10, 0, 0, 1), Port: 7}
	hc := &Honeytrap{ports: map[net.Addr][]*ServiceMap{laddr: {{Service: svc, Name: "svc", Type: "svc"}}}}
	n := zzLen(0, zzParam("N", 4))
	replies := 0
	conn := &listener.DummyUDPConn{Buffer: zzBytes(n), Laddr: laddr, Raddr: &net.UDPAddr{IP: net.IPv4(10, 9, 9, 9), Port: 40000},
		Fn: func(b []byte, addr *net.UDPAddr) (int, error) { replies++; return len(b), nil }}
	zzUnwindIn("copyBuffer", n+3, true) // the copy loops of io.Copy
	hc.handle(conn)
	zzUnwindIn("", 0, false)
	zzAssert(len(conn.Buffer) == 0, "the datagram has been consumed when the handler returns")
	zzAssert(replies <= n+1, "the handler does not keep producing output after the datagram is consumed")
}

// C09/udp-read: reader progress of the datagram connection from an arbitrary state.
func zzH_C09_udpread() {
	n := zzLen(0, 6)
	c := &listener.DummyUDPConn{Buffer: zzBytes(n)}
	b := make([]byte, zzLen(1, 4))
	got, err := c.Read(b)
	zzAssert(got > 0 || err != nil, "a Read either returns data or an error (a drained datagram reads as end of stream), so that read loops terminate")
	zzAssert(got <= n && len(c.Buffer) == n-got, "Read consumes exactly what it returns")
}
