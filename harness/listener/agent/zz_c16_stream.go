//go:build verif

package agent

import "net"

// C16/stream: one virtual connection. The session loop hands K data messages to the
// connection (receive), optionally followed by the end-of-stream (Close); a service
// goroutine reads with a buffer of 1..3 bytes. All interleavings of the two goroutines
// at their synchronisation points (mutex, channel) within the switch bound are
// explored. The service must obtain exactly the concatenation of the payloads, in
// order, and must not stay blocked although data is buffered.
func zzH_C16_stream() {
	la := &net.TCPAddr{IP: net.IPv4(10, 0, 0, 1), Port: 80}
	ra := &net.TCPAddr{IP: net.IPv4(10, 9, 9, 9), Port: 40000}
	ac := &agentConnection{Laddr: la, Raddr: ra, in: make(chan []byte, 1), out: make(chan interface{}, 8)} // as the session loop builds it
	k := zzLen(1, zzParam("K", 2))
	var msgs [][]byte
	var want []byte
	for i := 0; i < k; i++ {
		m := zzBytes(zzLen(1, zzParam("LEN", 2)))
		msgs = append(msgs, m)
		want = append(want, m...)
	}
	bufSize := zzLen(1, 3)
	withEOF := zzBool()
	var got []byte
	done := false
	go func() {
		buf := make([]byte, bufSize)
		for i := 0; i < 16; i++ {
			n, err := ac.Read(buf)
			got = append(got, buf[:n]...)
			if err != nil {
				break
			}
			if !withEOF && len(got) >= len(want) {
				break
			}
		}
		done = true
	}()
	for _, m := range msgs {
		ac.receive(m)
	}
	if withEOF {
		ac.Close()
	}
	zzQuiesce()
	zzAssert(done, "the service's read loop is not left blocked while the connection's bytes are buffered or its end was signalled")
	if done {
		same := len(got) == len(want)
		for i := 0; same && i < len(want); i++ {
			same = got[i] == want[i]
		}
		zzAssert(same, "the service reads exactly the bytes of the connection's data messages, in order, once")
	}
}

// C16/connections: the table of virtual connections against a reference list, for all
// sequences of K operations over 2 address pairs (announce, look up, end, re-announce).
func zzH_C16_connections() {
	addr := func(i int) (net.Addr, net.Addr) {
		return &net.TCPAddr{IP: net.IPv4(10, 0, 0, 1), Port: 80 + i}, &net.TCPAddr{IP: net.IPv4(10, 9, 9, 9), Port: 40000}
	}
	var conns Connections
	var ref [2]*agentConnection
	k := zzParam("K", 5)
	for step := 0; step < k; step++ {
		i := zzLen(0, 1)
		la, ra := addr(i)
		switch zzLen(0, 2) {
		case 0: // hello
			if ref[i] == nil {
				ac := &agentConnection{Laddr: la, Raddr: ra, in: make(chan []byte), out: make(chan interface{}, 64)}
				conns.Add(ac)
				ref[i] = ac
			}
		case 1: // data message: lookup
			zzAssert(conns.Get(la, ra) == ref[i], "a data message finds exactly the live connection announced for its addresses (nil when there is none)")
		case 2: // eof
			c := conns.Get(la, ra)
			zzAssert(c == ref[i], "an end-of-stream message finds exactly the live connection for its addresses")
			if c != nil {
				conns.Delete(c)
				c.Close()
				ref[i] = nil
			}
		}
	}
}

// C16/connections-lookup: one live connection with a symbolic local port and a symbolic
// first octet of the remote address; a message for (another) symbolic address pair finds it
// exactly when both addresses are equal - however the two pairs are formatted.
func zzH_C16_lookup() {
	lp1, lp2 := zzU16(), zzU16()
	o1, o2 := zzU8(), zzU8()
	la1 := &net.TCPAddr{IP: net.IPv4(10, 0, 0, 5), Port: int(lp1)}
	ra1 := &net.TCPAddr{IP: net.IPv4(o1, 2, 3, 4), Port: 51000}
	la2 := &net.TCPAddr{IP: net.IPv4(10, 0, 0, 5), Port: int(lp2)}
	ra2 := &net.TCPAddr{IP: net.IPv4(o2, 2, 3, 4), Port: 51000}
	var conns Connections
	ac := &agentConnection{Laddr: la1, Raddr: ra1, in: make(chan []byte), out: make(chan interface{}, 4)}
	conns.Add(ac)
	same := zzAnd(lp1 == lp2, o1 == o2)
	if conns.Get(la2, ra2) == ac {
		zzAssert(same, "a message is delivered to a connection only when both of its addresses are that connection's addresses")
	} else {
		zzAssert(!same, "a message for a live connection's addresses finds that connection")
	}
}
